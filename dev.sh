#!/bin/bash
# dev.sh <seeded-id|none> <prop> <count> [auto] — development helper (not a registered check):
# builds the harness against a scratch worktree of /repo (/tmp/repo-clean), optionally with a
# seeded change applied, and runs <count> seeds of <prop>. /repo itself is not touched.
set -u
ID=$1; PROP=$2; COUNT=${3:-1000}; AUTO=${4:-}
export GOFLAGS=-mod=mod GOPROXY=off GOSUMDB=off GOTOOLCHAIN=local GOEXPERIMENT=synctest
G=/root/go/pkg/mod/golang.org/toolchain@v0.0.1-go1.24.2.linux-amd64/bin/go
WT=/tmp/repo-clean
[ -d $WT ] || git -C /repo worktree add --detach $WT HEAD >/dev/null 2>&1
git -C $WT checkout -q --detach $(git -C /repo rev-parse HEAD) 2>/dev/null; git -C $WT checkout -q -- . ; git -C $WT clean -fdq internal/
[ "$ID" != none ] && { git -C $WT apply /verif/seeded/$ID/patch.diff || exit 2; }
B=/verif/.build; SRC=$WT; TAGS="verif"; OUT=$B/dev.test
if [ -n "$AUTO" ]; then
  (cd /verif/sim && $G build -o $B/autoyield-dev ./autoyield) || exit 2
  rsync -a --delete --exclude .git $WT/ $B/dev-auto/ && $B/autoyield-dev $B/dev-auto/internal/server >/dev/null || exit 2
  SRC=$B/dev-auto; TAGS="verif autoyield"; OUT=$B/dev.auto.test
fi
sed "s#=> /repo#=> $SRC#" /verif/sim/go.mod > $B/dev.mod; cp /verif/sim/go.sum $B/dev.sum
(cd /verif/sim && $G test -modfile $B/dev.mod -c -tags "$TAGS" -o $OUT .) || exit 2
cd /verif && GODEBUG=asyncpreemptoff=1 VERIF_PROP=$PROP VERIF_COUNT=$COUNT ${VERIF_EXTRA:-} $OUT -test.run TestAdhoc 2>&1 | grep -v "viol=0" | tail -${TAIL:-12} | cut -c1-${COLS:-400}
git -C $WT checkout -q -- . ; git -C $WT clean -fdq internal/
