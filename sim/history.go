package sim

import (
	"crypto/sha256"
	"encoding/hex"
	"fmt"
	"sort"
	"strings"
	"sync"
	"time"
)

// Event is one entry of the recorded history. Seq is the global event
// sequence number; T is virtual time since the start of the run.
type Event struct {
	Seq    int           `json:"seq"`
	T      time.Duration `json:"t"`
	Kind   string        `json:"k"`
	Task   string        `json:"task,omitempty"`
	Actor  string        `json:"actor,omitempty"`
	Op     int           `json:"op,omitempty"`
	Req    string        `json:"req,omitempty"`
	Target string        `json:"tgt,omitempty"` // target address
	Obj    string        `json:"obj,omitempty"` // object instance id (target instance, lb, conn)
	Status int           `json:"st,omitempty"`
	N      int           `json:"n,omitempty"`
	Err    string        `json:"err,omitempty"`
	Info   string        `json:"info,omitempty"`
}

func (e Event) String() string {
	var b strings.Builder
	fmt.Fprintf(&b, "#%d t=%v %s", e.Seq, e.T, e.Kind)
	if e.Task != "" {
		fmt.Fprintf(&b, " task=%s", e.Task)
	}
	if e.Actor != "" {
		fmt.Fprintf(&b, " actor=%s op=%d", e.Actor, e.Op)
	}
	if e.Req != "" {
		fmt.Fprintf(&b, " req=%s", e.Req)
	}
	if e.Target != "" {
		fmt.Fprintf(&b, " tgt=%s", e.Target)
	}
	if e.Obj != "" {
		fmt.Fprintf(&b, " obj=%s", e.Obj)
	}
	if e.Status != 0 {
		fmt.Fprintf(&b, " st=%d", e.Status)
	}
	if e.N != 0 {
		fmt.Fprintf(&b, " n=%d", e.N)
	}
	if e.Err != "" {
		fmt.Fprintf(&b, " err=%q", e.Err)
	}
	if e.Info != "" {
		fmt.Fprintf(&b, " info=%q", e.Info)
	}
	return b.String()
}

type History struct {
	mu     sync.Mutex
	start  time.Time
	frozen bool
	Off    bool // set before the run starts, never changed afterwards
	Events []Event
}

// Freeze makes the history immutable (teardown noise is not recorded).
func (h *History) Freeze() {
	h.mu.Lock()
	h.frozen = true
	h.mu.Unlock()
}

func NewHistory() *History { return &History{} }

func (h *History) SetStart(t time.Time) { h.start = t }

// Add appends an event, stamping sequence number and virtual time, and returns
// its sequence number.
func (h *History) Add(e Event) int { return h.add(e, false) }

// AddForce records an event even after Freeze (post-run oracle observations).
func (h *History) AddForce(e Event) int { return h.add(e, true) }

func (h *History) add(e Event, force bool) int {
	if h.Off { // race mode: no recording, and above all no global lock (or atomic) that would order unrelated goroutines
		return 1
	}
	h.mu.Lock()
	defer h.mu.Unlock()
	if h.frozen && !force {
		return len(h.Events)
	}
	e.Seq = len(h.Events) + 1
	if !h.start.IsZero() {
		e.T = time.Since(h.start)
	}
	h.Events = append(h.Events, e)
	return e.Seq
}

func (h *History) Len() int {
	h.mu.Lock()
	defer h.mu.Unlock()
	return len(h.Events)
}

// Hash is a digest of the complete event log; equal hashes == identical runs.
// Events are compared in a canonical order: within one scheduler step (the
// events between two "step" events) goroutines woken by the same cause run
// concurrently and their relative order is not decided by the schedule, so the
// events of a step are grouped by causal chain (request id, else connection or
// object id) with the order inside each chain kept. Sequence numbers are not
// part of the digest; virtual time is.
func (h *History) Hash() string {
	h.mu.Lock()
	defer h.mu.Unlock()
	d := sha256.New()
	flush := func(seg []Event) {
		sort.SliceStable(seg, func(i, j int) bool { return chainKey(&seg[i]) < chainKey(&seg[j]) })
		for _, e := range seg {
			e.Seq = 0
			e.Req = normID(e.Req)
			fmt.Fprintln(d, e.String())
		}
	}
	var seg []Event
	for _, e := range h.Events {
		if e.Kind == "step" && strings.HasSuffix(e.Info, "!") {
			continue // an invisible lock waiter went on (not a decision; whether it had to wait at all may depend on a race inside a step)
		}
		if e.Kind == "step" || e.Kind == "stall" {
			flush(seg)
			seg = seg[:0]
			e.Seq = 0
			e.Req = normID(e.Req)
			fmt.Fprintln(d, e.String())
			continue
		}
		seg = append(seg, e)
	}
	flush(seg)
	return hex.EncodeToString(d.Sum(nil))[:16]
}

// normID replaces proxy-generated (random) UUID request ids by a constant.
func normID(id string) string {
	if len(id) == 36 && id[8] == '-' && id[13] == '-' && id[18] == '-' && id[23] == '-' {
		return "<uuid>"
	}
	return id
}

func chainKey(e *Event) string {
	switch {
	case e.Kind == "net.close": // both ends may close independently
		return "o:" + e.Obj + ":" + e.Info
	case e.Req != "":
		// client side, target side and network side of one request run in
		// different goroutines; inside one step only each side is ordered
		side := e.Kind
		if i := strings.Index(side, "."); i > 0 {
			side = side[:i]
		}
		return "r:" + normID(e.Req) + ":" + side
	case e.Obj != "":
		return "o:" + e.Obj
	case e.Target != "":
		return "t:" + e.Target
	}
	return "k:" + e.Kind
}

func (h *History) Dump(max int) string {
	h.mu.Lock()
	defer h.mu.Unlock()
	var b strings.Builder
	evs := h.Events
	if max > 0 && len(evs) > max {
		fmt.Fprintf(&b, "... (%d earlier events)\n", len(evs)-max)
		evs = evs[len(evs)-max:]
	}
	for _, e := range evs {
		b.WriteString(e.String())
		b.WriteByte('\n')
	}
	return b.String()
}

// Select returns the events for which f is true.
func (h *History) Select(f func(*Event) bool) []*Event {
	var out []*Event
	for i := range h.Events {
		if f(&h.Events[i]) {
			out = append(out, &h.Events[i])
		}
	}
	return out
}
