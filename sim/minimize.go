package sim

import (
	"encoding/json"
	"testing"
	"time"
)

// ---------------------------------------------------------------------------
// Minimisation: delta debugging over the scenario (actors, operations,
// targets, knobs) and then over the schedule, accepting a candidate only if
// the same violation class (property + clause + signature) recurs.
// ---------------------------------------------------------------------------

// Heartbeat, when set, is called before every candidate run of the minimiser
// (the worker uses it to show the launcher's watchdog that it is alive).
var Heartbeat func()

type vclass struct{ prop, clause, sig string }

func classOf(v Violation) vclass { return vclass{v.Prop, v.Clause, v.Sig} }

func hasClass(vs []Violation, c vclass) bool {
	for _, v := range vs {
		if classOf(v) == c {
			return true
		}
	}
	return false
}

func cloneScenario(sc *Scenario) *Scenario {
	b, _ := json.Marshal(sc)
	var out Scenario
	json.Unmarshal(b, &out)
	return &out
}

type minimizer struct {
	t      *testing.T
	class  vclass
	budget int
	until  time.Time
	best   *Scenario
	trace  []Decision
	Tried  int
}

// try runs the candidate under the current trace (with fallback) and, if that
// does not reproduce, under a few fresh schedule seeds. On success the
// candidate and the trace that reproduced it become the new best.
func (m *minimizer) try(c *Scenario, reseeds int) bool {
	if m.Tried >= m.budget || time.Now().After(m.until) {
		return false
	}
	m.Tried++
	if Heartbeat != nil {
		Heartbeat()
	}
	r := Execute(m.t, c, m.trace)
	if hasClass(r.Viol, m.class) {
		m.best, m.trace = c, r.Trace
		return true
	}
	for j := 1; j <= reseeds; j++ {
		if m.Tried >= m.budget || time.Now().After(m.until) {
			return false
		}
		m.Tried++
		c2 := cloneScenario(c)
		c2.Seed = c.Seed + int64(j)*7919
		r := Execute(m.t, c2, nil)
		if hasClass(r.Viol, m.class) {
			m.best, m.trace = c2, r.Trace
			return true
		}
	}
	return false
}

func pruneTargets(sc *Scenario) {
	used := map[string]bool{}
	for _, a := range sc.Actors {
		for _, o := range a.Ops {
			for _, t := range o.Targets {
				used[t] = true
			}
		}
	}
	var keep []TargetSpec
	for _, t := range sc.Targets {
		if used[t.Addr] {
			keep = append(keep, t)
		}
	}
	sc.Targets = keep
}

// Minimize shrinks (sc, trace) while the violation class persists.
func Minimize(t *testing.T, sc *Scenario, trace []Decision, v Violation, maxRuns int, maxTime time.Duration) (*Scenario, []Decision, int) {
	m := &minimizer{t: t, class: classOf(v), budget: maxRuns, until: time.Now().Add(maxTime), best: sc, trace: trace}
	// 0. the recorded trace must reproduce in replay mode
	r := Execute(t, sc, trace)
	m.Tried++
	if !hasClass(r.Viol, m.class) {
		return sc, trace, m.Tried
	}
	m.trace = r.Trace
	for progress := true; progress; {
		progress = false
		// 1. drop whole actors (last first)
		for i := len(m.best.Actors) - 1; i >= 0; i-- {
			if len(m.best.Actors) <= 1 {
				break
			}
			c := cloneScenario(m.best)
			c.Actors = append(c.Actors[:i], c.Actors[i+1:]...)
			pruneTargets(c)
			if m.try(c, 2) {
				progress = true
			}
		}
		// 2. drop single operations (last first)
		for ai := len(m.best.Actors) - 1; ai >= 0; ai-- {
			for oi := len(m.best.Actors[ai].Ops) - 1; oi >= 0; oi-- {
				if ai >= len(m.best.Actors) || oi >= len(m.best.Actors[ai].Ops) {
					continue
				}
				c := cloneScenario(m.best)
				ops := c.Actors[ai].Ops
				c.Actors[ai].Ops = append(ops[:oi], ops[oi+1:]...)
				pruneTargets(c)
				if m.try(c, 2) {
					progress = true
				}
			}
		}
		// 3. fewer targets per command
		for ai := range m.best.Actors {
			for oi := range m.best.Actors[ai].Ops {
				for len(m.best.Actors[ai].Ops[oi].Targets) > 1 {
					c := cloneScenario(m.best)
					o := &c.Actors[ai].Ops[oi]
					o.Targets = o.Targets[:len(o.Targets)-1]
					pruneTargets(c)
					if !m.try(c, 2) {
						break
					}
					progress = true
				}
			}
		}
		// 4. simpler targets and ops
		for ti := range m.best.Targets {
			if len(m.best.Targets[ti].Phases) > 0 {
				c := cloneScenario(m.best)
				c.Targets[ti].Phases = nil
				if m.try(c, 2) {
					progress = true
				}
			}
		}
		for hi := len(m.best.TaskHolds) - 1; hi >= 0; hi-- {
			c := cloneScenario(m.best)
			c.TaskHolds = append(c.TaskHolds[:hi:hi], c.TaskHolds[hi+1:]...)
			if m.try(c, 1) {
				progress = true
			}
		}
		for ai := range m.best.Actors {
			for oi := range m.best.Actors[ai].Ops {
				o := m.best.Actors[ai].Ops[oi]
				if o.Hold != nil {
					c := cloneScenario(m.best)
					c.Actors[ai].Ops[oi].Hold = nil
					if m.try(c, 1) {
						progress = true
					}
				}
				if o.Sim != "" || o.Cookie != "" {
					c := cloneScenario(m.best)
					c.Actors[ai].Ops[oi].Sim = ""
					c.Actors[ai].Ops[oi].Cookie = ""
					if m.try(c, 1) {
						progress = true
					}
				}
			}
		}
		// 5. simpler scheduling knobs
		if len(m.best.Sched.Disabled) > 0 || m.best.Sched.StallMax > 0 {
			c := cloneScenario(m.best)
			c.Sched.Disabled = nil
			c.Sched.StallMax, c.Sched.StallP, c.Sched.StallDelta = 0, 0, 0
			if m.try(c, 2) {
				progress = true
			}
		}
	}
	// 6. schedule: shortest prefix (the default policy continues after it)
	lo, hi := 0, len(m.trace)
	for lo < hi {
		mid := (lo + hi) / 2
		if m.Tried >= m.budget {
			break
		}
		m.Tried++
		r := Execute(t, m.best, append([]Decision{}, m.trace[:mid]...))
		if hasClass(r.Viol, m.class) {
			hi = mid
		} else {
			lo = mid + 1
		}
	}
	if hi < len(m.trace) {
		r := Execute(t, m.best, append([]Decision{}, m.trace[:hi]...))
		m.Tried++
		if hasClass(r.Viol, m.class) {
			m.trace = m.trace[:hi]
		}
	}
	// 7. schedule: remove chunks of decisions (default policy fills in)
	for chunk := len(m.trace) / 2; chunk >= 1; chunk /= 2 {
		for start := 0; start+chunk <= len(m.trace); {
			if m.Tried >= m.budget || time.Now().After(m.until) {
				break
			}
			cand := append(append([]Decision{}, m.trace[:start]...), m.trace[start+chunk:]...)
			m.Tried++
			r := Execute(t, m.best, cand)
			if hasClass(r.Viol, m.class) {
				m.trace = cand
			} else {
				start += chunk
			}
		}
	}
	return m.best, m.trace, m.Tried
}
