package sim

import (
	"crypto/tls"
	"encoding/json"
	"fmt"
	"math/rand"
	"os"
	"sort"
	"strings"
	"time"
)

// ---------------------------------------------------------------------------
// Observation: the black-box snapshot of a router's configuration used by the
// history properties (C04-C06, C10-C12): `list` output, parsed state file and a
// probe matrix of requests sent through the handler.
// ---------------------------------------------------------------------------

type MatrixKey struct {
	Host   string `json:"host"`
	Path   string `json:"path"`
	Cookie string `json:"cookie,omitempty"`
	TLS    bool   `json:"tls,omitempty"`
	Method string `json:"method,omitempty"`
}

func (k MatrixKey) String() string {
	s := k.Host + "|" + k.Path
	if k.Cookie != "" {
		s += "|" + k.Cookie
	}
	if k.TLS {
		s += "|tls"
	}
	if k.Method != "" {
		s += "|" + k.Method
	}
	return s
}

type Observation struct {
	Tag    string            `json:"tag"`
	Router string            `json:"router"`
	Seq    int               `json:"seq"`
	List   map[string]string `json:"list"`            // service -> "host path target state tls"
	State  []SvcState        `json:"state"`           // parsed state file
	StErr  string            `json:"st_err"`          // state file unreadable / unparsable
	Matrix map[string]string `json:"matrix"`          // key -> "status:sorted set of serving targets[:location]"
	Certs  map[string]string `json:"certs,omitempty"` // SNI name -> "cert" | error text
}

// Observe takes the snapshot. It runs in the calling actor's goroutine; the
// matrix requests go through the normal request path (and its yield points).
func (w *World) Observe(actor string, idx int, op *Op, keys []MatrixKey, repeat int) *Observation {
	ri := w.router(op.Router)
	o := &Observation{Tag: op.Tag, Router: ri.Name, List: map[string]string{}, Matrix: map[string]string{}}
	o.Seq = w.H.Add(Event{Kind: "observe", Actor: actor, Op: idx, Info: op.Tag, Task: ri.Name})
	for name, d := range ri.Router.ListActiveServices() {
		o.List[name] = fmt.Sprintf("%s %s %s %s %v", d.Host, d.Path, d.Target, d.State, d.TLS)
	}
	if b, err := os.ReadFile(ri.StatePath); err != nil {
		o.StErr = "unreadable"
	} else if st, err := ParseState(b); err != nil {
		o.StErr = "unparsable: " + err.Error()
	} else {
		o.State = st
	}
	for ki, k := range keys {
		set := map[string]bool{}
		status, loc := 0, ""
		mixed := false
		for j := 0; j < repeat; j++ {
			rop := &Op{Kind: "request", Router: op.Router, Host: k.Host, Path: k.Path, Cookie: k.Cookie, TLS: k.TLS, Method: k.Method, Tag: "obs"}
			rid := fmt.Sprintf("obs-%s-%d-%d-%d", actor, idx, ki, j)
			resp := w.doRequestID(actor, idx, rop, rid)
			if j > 0 && resp.Status != status {
				mixed = true
			}
			status = resp.Status
			if resp.ServedBy != "" {
				set[resp.ServedBy] = true
			}
			if l := resp.Header.Get("Location"); l != "" {
				loc = l
			}
			if u := resp.Header.Get("X-Seen-Uri"); u != "" && u != k.Path {
				loc = "seen=" + u
			}
			if resp.Status == 503 {
				if reg, ok := messageRegion(string(resp.Body), strings.Contains(string(resp.Body), "CUSTOM503[[")); ok {
					loc = "msg=" + trunc(reg, 80)
				}
			}
			if status != 200 {
				break
			}
		}
		v := fmt.Sprintf("%d:%s", status, strings.Join(sortedKeys(set), ","))
		if loc != "" {
			v += ":" + loc
		}
		if mixed {
			v += ":MIXED"
		}
		o.Matrix[k.String()] = v
	}
	if w.Sc.Params["obs_certs"] != 0 {
		o.Certs = map[string]string{}
		hosts := map[string]bool{"": true}
		for _, k := range keys {
			hosts[stripPort(k.Host)] = true
		}
		for h := range hosts {
			c, err := ri.Router.GetCertificate(&tls.ClientHelloInfo{ServerName: h})
			switch {
			case err != nil:
				o.Certs[h] = "err: " + err.Error()
			case c != nil:
				o.Certs[h] = "cert"
			}
		}
	}
	w.mu.Lock()
	w.Obs = append(w.Obs, o)
	w.mu.Unlock()
	return o
}

func (w *World) ObsByTag(tag, router string) *Observation {
	for _, o := range w.Obs {
		if o.Tag == tag && (router == "" || o.Router == router) {
			return o
		}
	}
	return nil
}

// DiffObs lists the differences between two observations (empty = equal).
func DiffObs(a, b *Observation, withState bool) []string {
	var out []string
	cmpMap := func(what string, x, y map[string]string) {
		keys := map[string]bool{}
		for k := range x {
			keys[k] = true
		}
		for k := range y {
			keys[k] = true
		}
		for _, k := range sortedKeys(keys) {
			if x[k] != y[k] {
				out = append(out, fmt.Sprintf("%s[%s]: %q vs %q", what, k, x[k], y[k]))
			}
		}
	}
	cmpMap("list", a.List, b.List)
	cmpMap("matrix", a.Matrix, b.Matrix)
	cmpMap("certificate", a.Certs, b.Certs)
	if withState {
		ja, _ := json.Marshal(a.State)
		jb, _ := json.Marshal(b.State)
		if string(ja) != string(jb) || a.StErr != b.StErr {
			out = append(out, fmt.Sprintf("state file: %s%s vs %s%s", ja, a.StErr, jb, b.StErr))
		}
	}
	return out
}

// matrixKeysFor derives a probe matrix from the hosts and paths mentioned in a
// scenario's commands, plus foreign ones.
func matrixKeysFor(sc *Scenario, withCookie bool) []MatrixKey {
	hosts := map[string]bool{"unknown.test": true}
	paths := map[string]bool{"/": true, "/zzz": true}
	for _, a := range sc.Actors {
		for _, o := range a.Ops {
			for _, h := range o.Hosts {
				if strings.HasPrefix(h, "*.") {
					hosts["sub"+h[1:]] = true
				} else if h != "" {
					hosts[h] = true
				}
			}
			for _, p := range o.Paths {
				p = "/" + strings.Trim(p, "/")
				paths[p] = true
				if p != "/" {
					paths[p+"/deep"] = true
				}
			}
		}
	}
	var keys []MatrixKey
	hs := sortedKeys(hosts)
	ps := sortedKeys(paths)
	for _, h := range hs {
		for _, p := range ps {
			keys = append(keys, MatrixKey{Host: h, Path: p})
			if withCookie {
				keys = append(keys, MatrixKey{Host: h, Path: p, Cookie: "kamal-rollout=vip"})
			}
		}
	}
	sort.Slice(keys, func(i, j int) bool { return keys[i].String() < keys[j].String() })
	return keys
}

var _ = time.Second

// routingMatrixKeys is a seeded sample of the host x path probe space.
func routingMatrixKeys(seed int64) []MatrixKey {
	rng := rand.New(rand.NewSource(seed ^ 0x5eed))
	seen := map[string]bool{}
	var keys []MatrixKey
	for len(keys) < 48 {
		k := MatrixKey{Host: rtProbeHosts[rng.Intn(len(rtProbeHosts))], Path: rtProbePaths[rng.Intn(len(rtProbePaths))]}
		if !seen[k.String()] {
			seen[k.String()] = true
			keys = append(keys, k)
		}
	}
	return keys
}
