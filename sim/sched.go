package sim

import (
	"fmt"
	"math/rand"
	"reflect"
	"runtime"
	"sort"
	"strconv"
	"strings"
	"sync"
	"sync/atomic"
	"testing/synctest"
	"time"
)

// ---------------------------------------------------------------------------
// Cooperative scheduler. Every goroutine that matters ("task") parks at yield
// points; the scheduler goroutine waits for quiescence (synctest.Wait), then
// draws the next decision: release one parked task, or let virtual time
// advance. One decision sequence == one interleaving.
// ---------------------------------------------------------------------------

const advanceName = "~advance"

// Decision is one scheduler choice: the name of the released task (or
// advanceName) and the yield point the task was parked at.
type Decision struct {
	Task  string `json:"t"`
	Point string `json:"p,omitempty"`
}

type lockState struct {
	writer  uint64 // goroutine holding it exclusively (0 = none)
	readers int
	// pendingW counts goroutines that have called Lock() and wait (parked at the
	// automatic yield in front of it, or invisibly). As with sync.RWMutex, a
	// pending writer keeps every new RLock out, also one by a goroutine that
	// already holds a read lock: recursive read locking deadlocks here as it
	// does in the real thing.
	pendingW int
	readerG  map[uint64]int // who holds it shared (for the wait-for graph)
}

// lockWant is the argument of a task parked at an automatic "about to lock" yield.
type lockWant struct {
	m    any
	mode string
	gid  uint64 // the goroutine that wants it
	site string
}

type section struct {
	enter, exit string
	keyed       bool             // one instance of the section per yield argument (e.g. per service name)
	owners      map[string]*Task // key ("" when not keyed) -> task inside
}

// AddSection declares a critical section delimited by two yield points: a real
// mutex of the proxy that is held across yield points.
func (s *Sim) AddSection(enter, exit string, keyed bool) {
	if s.sections == nil {
		s.sections = map[string]*section{}
	}
	s.sections[enter] = &section{enter: enter, exit: exit, keyed: keyed, owners: map[string]*Task{}}
}

func (sec *section) key(arg any) string {
	if !sec.keyed {
		return ""
	}
	return fmt.Sprint(arg)
}

// Hold is a directed stall: the task, once parked at yield point At, is not
// eligible to run until yield point For has been released N more times (by
// anyone), or Max virtual time has passed.
type Hold struct {
	At  string        `json:"at"`
	For string        `json:"for"`
	N   int           `json:"n,omitempty"`
	Max time.Duration `json:"max,omitempty"`
	// Skip: let the task pass this many matching points first. At may end in "*" (prefix
	// match): "lock@target.go:*" is whatever lock acquisition of target.go the task reaches,
	// so a goroutine can be descheduled between two critical sections nobody placed a hook in.
	Skip int `json:"skip,omitempty"`
}

// holdAt tells whether yield point `point` is where hold h applies.
func holdAt(h *Hold, point string) bool {
	if strings.HasSuffix(h.At, "*") {
		return strings.HasPrefix(point, h.At[:len(h.At)-1])
	}
	return h.At == point
}

type Task struct {
	holdSkip  int // matching points passed so far under hold (Hold.Skip)
	hold      *Hold
	holdInfo  *Hold
	held      bool
	heldSince time.Duration
	heldBase  int
	name      string
	kind      string // "actor", "bg" (background: health checks, conns), "repo"
	wake      chan struct{}
	point     string
	arg       any
	parked    bool
	done      bool
	prio      int
	hasPr     bool
}

type SchedKnobs struct {
	Policy     string        `json:"policy"` // uniform | sticky | pct
	PreemptP   float64       `json:"preempt_p,omitempty"`
	PCTDepth   int           `json:"pct_depth,omitempty"`
	Disabled   []string      `json:"disabled,omitempty"` // yield points switched off this run
	StallMax   int           `json:"stall_max,omitempty"`
	StallDelta time.Duration `json:"stall_delta,omitempty"`
	StallP     float64       `json:"stall_p,omitempty"`
	AutoOff    bool          `json:"auto_off,omitempty"`    // autoyield builds: lock acquisitions are not yield points in this run
	AutoNested bool          `json:"auto_nested,omitempty"` // autoyield builds: also acquisitions made while holding another lock are yield points
	MaxSteps   int           `json:"max_steps"`
	MaxVirtual time.Duration `json:"max_virtual"`
}

type Sim struct {
	mu       sync.Mutex
	tasks    map[uint64]*Task
	byName   map[string]*Task
	parked   []*Task
	ordinals map[string]int
	taken    map[int64]bool
	pointN   map[string]int
	Holds    int // holds that actually took effect
	// lock tracking (autoyield builds): which real mutexes are held, and how
	// many locks each goroutine holds
	locks      map[any]*lockState
	depth      map[uint64]int
	announced  map[uint64]any // goroutine -> mutex it is a pending writer of
	lockStuck  int            // consecutive idle rounds in which every parked task waited for a held mutex
	Deadlock   string         // set when the run was ended because of that
	AutoOff    bool           // this run: lock acquisitions are tracked but are not yield points
	autoNested bool           // this run: nested acquisitions are yield points too
	RealScale  int            // > 0: real-time mode outside a synctest bubble, all durations divided by this
	Free       bool           // uncontrolled mode: yield points do not park, the Go scheduler decides (race detector runs)
	// critical sections of repo code that contain yield points (a real mutex
	// held across yields): a task parked at the Enter point is not eligible
	// while another task is inside the section. Keyed by Enter point.
	sections map[string]*section
	actors   int // actors not yet finished
	arrival  chan struct{}
	active   atomic.Bool
	disabled map[string]bool

	knobs   SchedKnobs
	rng     *rand.Rand // owned by the scheduler goroutine only
	replay  []Decision // when non-nil decisions come from here
	rpos    int
	trace   []Decision
	last    *Task
	pctPts  map[int]bool
	stalls  int
	steps   int
	start   time.Time
	namer   func(point string, arg any) string
	skip    func(point string, arg any) bool        // yield points that must not park in the current state
	onStep  func(t *Task)                           // called (scheduler goroutine) just before a task is released
	holdFor func(task, point string, arg any) *Hold // a hold armed for whatever goroutine reaches point (server mode: by request id; proxy goroutines: by task name)
	onHold  func(at string)                         // a hold has begun at the yield point
	onIdle  func() error                            // invariant hook, called after every quiescence
	H       *History
	Budget  string // non-empty when the run hit a step / virtual time budget
	Diverge int    // replay decisions that could not be honoured
}

func NewSim(seed int64, knobs SchedKnobs, h *History) *Sim {
	s := &Sim{
		tasks:     map[uint64]*Task{},
		byName:    map[string]*Task{},
		ordinals:  map[string]int{},
		taken:     map[int64]bool{},
		pointN:    map[string]int{},
		locks:     map[any]*lockState{},
		depth:     map[uint64]int{},
		announced: map[uint64]any{},
		arrival:   make(chan struct{}, 1),
		disabled:  map[string]bool{},
		knobs:     knobs,
		rng:       rand.New(rand.NewSource(seed)),
		H:         h,
		pctPts:    map[int]bool{},
	}
	for _, p := range knobs.Disabled {
		s.disabled[p] = true
	}
	s.AutoOff = knobs.AutoOff
	s.autoNested = knobs.AutoNested
	s.start = time.Now()
	s.active.Store(true)
	if knobs.Policy == "pct" {
		for i := 0; i < knobs.PCTDepth; i++ {
			s.pctPts[s.rng.Intn(maxInt(knobs.MaxSteps/4, 1))] = true
		}
	}
	return s
}

func maxInt(a, b int) int {
	if a > b {
		return a
	}
	return b
}

func curGID() uint64 {
	var buf [64]byte
	n := runtime.Stack(buf[:], false)
	// "goroutine 123 ["
	b := buf[10:n]
	i := 0
	for i < len(b) && b[i] >= '0' && b[i] <= '9' {
		i++
	}
	id, _ := strconv.ParseUint(string(b[:i]), 10, 64)
	return id
}

// ---- virtual-time discipline ------------------------------------------------
// Every scheduler step runs at its own whole-microsecond instant (the
// scheduler advances the clock to the next whole microsecond before it
// releases a task), so timers that repo code creates in different steps never
// expire together. Harness timers expire only at instants that are 500ns past a
// whole microsecond and never two at the same instant. Hence no two timers of
// the bubble ever fire at the same virtual instant unless one goroutine created
// both in one step.

// uniqueInstant returns the expiry instant for a harness timer of duration d.
func (s *Sim) uniqueInstant(d time.Duration) time.Time {
	if d < 0 {
		d = 0
	}
	if s.RealScale > 0 { // real-time race mode: no bubble, compressed durations, no instant discipline
		return time.Now().Add(d / time.Duration(s.RealScale))
	}
	now := time.Now()
	t := now.Add(d).Truncate(time.Microsecond).Add(1500 * time.Nanosecond)
	s.mu.Lock()
	for s.taken[t.UnixNano()] {
		t = t.Add(time.Microsecond)
	}
	s.taken[t.UnixNano()] = true
	s.mu.Unlock()
	return t
}

// Sleep blocks the calling harness goroutine for about d of virtual time.
func (s *Sim) Sleep(d time.Duration) { time.Sleep(time.Until(s.uniqueInstant(d))) }

// NewTimer is time.NewTimer on the harness grid.
func (s *Sim) NewTimer(d time.Duration) *time.Timer {
	return time.NewTimer(time.Until(s.uniqueInstant(d)))
}

// AfterFunc is time.AfterFunc on the harness grid.
func (s *Sim) AfterFunc(d time.Duration, f func()) *time.Timer {
	return time.AfterFunc(time.Until(s.uniqueInstant(d)), f)
}

// tick advances the clock to the next whole microsecond.
func (s *Sim) tick() {
	now := time.Now()
	next := now.Truncate(time.Microsecond).Add(time.Microsecond)
	time.Sleep(next.Sub(now))
}

// Now is virtual time since the start of the run.
func (s *Sim) Now() time.Duration {
	if s.RealScale > 0 {
		return time.Since(s.start) * time.Duration(s.RealScale)
	}
	return time.Since(s.start)
}

// D scales a duration handed to the proxy (timeouts, intervals) in real-time mode.
func (s *Sim) D(d time.Duration) time.Duration {
	if s.RealScale > 0 {
		return d / time.Duration(s.RealScale)
	}
	return d
}

func (s *Sim) notify() {
	select {
	case s.arrival <- struct{}{}:
	default:
	}
}

// unique returns key, key#2, key#3 ... in order of request. Callers hold s.mu.
func (s *Sim) uniqueLocked(key string) string {
	s.ordinals[key]++
	if n := s.ordinals[key]; n > 1 {
		return key + "#" + strconv.Itoa(n)
	}
	return key
}

// Go starts a harness goroutine as a named task. Actors count towards
// completion of the run; background tasks do not.
func (s *Sim) Go(name, kind string, fn func()) {
	s.mu.Lock()
	t := &Task{name: s.uniqueLocked(name), kind: kind, wake: make(chan struct{})}
	s.byName[t.name] = t
	if kind == "actor" {
		s.actors++
	}
	s.mu.Unlock()
	go func() {
		gid := curGID()
		s.mu.Lock()
		s.tasks[gid] = t
		s.mu.Unlock()
		defer func() {
			s.mu.Lock()
			t.done = true
			for _, sec := range s.sections {
				for k, o := range sec.owners {
					if o == t {
						delete(sec.owners, k)
					}
				}
			}
			delete(s.tasks, gid)
			if t.kind == "actor" {
				s.actors--
			}
			s.mu.Unlock()
			s.notify()
		}()
		s.park(t, "start", nil)
		fn()
	}()
}

// Yield is a scheduling point in harness code.
func (s *Sim) Yield(point string) { s.Hook(point, nil) }

// Hook is installed as server.SimHook: a scheduling point in repo code.
func (s *Sim) Hook(point string, arg any) {
	if s.Free {
		runtime.Gosched() // still a good place to let others in
		return
	}
	if !s.active.Load() || s.disabled[point] {
		return
	}
	if s.skip != nil && s.skip(point, arg) {
		return
	}
	gid := curGID()
	s.mu.Lock()
	t := s.tasks[gid]
	if t == nil {
		name := ""
		if s.namer != nil {
			name = s.namer(point, arg)
		}
		if name == "" {
			name = "anon:" + point
		}
		t = &Task{name: s.uniqueLocked(name), kind: "repo", wake: make(chan struct{})}
		s.tasks[gid] = t
		s.byName[t.name] = t
	}
	s.mu.Unlock()
	s.park(t, point, arg)
}

func (s *Sim) park(t *Task, point string, arg any) {
	if !s.active.Load() || s.Free {
		return
	}
	s.mu.Lock()
	t.point, t.arg, t.parked = point, arg, true
	for _, sec := range s.sections {
		if point == sec.exit {
			for k, o := range sec.owners {
				if o == t && k == sec.key(arg) {
					delete(sec.owners, k)
				}
			}
		}
	}
	if t.hold == nil && s.holdFor != nil {
		t.hold = s.holdFor(t.name, point, arg)
	}
	began := ""
	if h := t.hold; h != nil && holdAt(h, point) && t.holdSkip < h.Skip {
		t.holdSkip++
	} else if h != nil && holdAt(h, point) {
		t.holdSkip = 0
		t.held, t.heldSince, t.heldBase = true, s.Now(), s.pointN[h.For]
		t.holdInfo = h
		t.hold = nil
		s.Holds++
		s.H.Add(Event{Kind: "fault", Task: t.name, Info: "hold:" + h.At + "->" + h.For})
		began = h.At
	}
	s.parked = append(s.parked, t)
	s.mu.Unlock()
	if began != "" && s.onHold != nil {
		s.onHold(began)
	}
	s.notify()
	<-t.wake
}

const lockHeldPoint = "lock@held"

// lockCycleLocked looks for a cycle in the wait-for graph of the goroutines
// that are parked in front of a mutex they cannot have: a waiter waits for the
// exclusive holder, a would-be writer also for every reader inside (itself
// included: an upgrade), a would-be reader also for every pending writer (a
// new RLock queues behind a waiting Lock, also when the goroutine already
// holds a read lock - Go's documented ban on recursive read locking). A cycle
// is a deadlock of the proxy: none of its members can ever run again. It
// returns a description of the waiters, "" when there is no cycle.
func (s *Sim) lockCycleLocked(parked []*Task) string {
	waits := map[uint64][]uint64{}
	for _, t := range parked {
		lw, ok := t.arg.(lockWant)
		if !ok || lw.gid == 0 || s.lockFreeLocked(lw.m, lw.mode, 0) {
			continue
		}
		ls := s.locks[lw.m]
		if ls == nil {
			continue
		}
		if ls.writer != 0 {
			waits[lw.gid] = append(waits[lw.gid], ls.writer)
		}
		if lw.mode == "W" {
			for g := range ls.readerG {
				waits[lw.gid] = append(waits[lw.gid], g)
			}
		} else if ls.pendingW > 0 {
			for g, m := range s.announced {
				if m == lw.m {
					waits[lw.gid] = append(waits[lw.gid], g)
				}
			}
		}
	}
	state := map[uint64]int{} // 1 = on the stack, 2 = done
	var visit func(g uint64) bool
	visit = func(g uint64) bool {
		switch state[g] {
		case 1:
			return true
		case 2:
			return false
		}
		state[g] = 1
		for _, h := range waits[g] {
			if _, waiting := waits[h]; waiting && visit(h) {
				return true
			}
		}
		state[g] = 2
		return false
	}
	for g := range waits {
		if visit(g) {
			return s.describeLockWaitLocked(parked)
		}
	}
	return ""
}

// describeLockWaitLocked lists who waits for which mutex and who holds it.
func (s *Sim) describeLockWaitLocked(parked []*Task) string {
	byGID := map[uint64]string{}
	for g, t := range s.tasks {
		byGID[g] = t.name
	}
	var b strings.Builder
	for _, t := range parked {
		lw, ok := t.arg.(lockWant)
		if !ok || s.lockFreeLocked(lw.m, lw.mode, 0) {
			continue
		}
		ls := s.locks[lw.m]
		fmt.Fprintf(&b, "%s waits at %s for %s-lock %v", t.name, t.point, lw.mode, lw.m)
		if ls != nil {
			if ls.writer != 0 {
				fmt.Fprintf(&b, " held by %s", byGID[ls.writer])
			}
			if ls.readers > 0 {
				fmt.Fprintf(&b, " (%d reader(s) inside)", ls.readers)
			}
			if ls.pendingW > 0 && lw.mode == "R" {
				fmt.Fprintf(&b, " (%d writer(s) pending: a new RLock waits behind them)", ls.pendingW)
			}
		}
		b.WriteString("; ")
	}
	return b.String()
}

// LockHook is installed as server.SimLockHook in autoyield builds.
func (s *Sim) LockHook(kind string, m any, mode string, site string) {
	if s.Free || !s.active.Load() {
		return
	}
	gid := curGID()
	m = lockKey(m)
	switch kind {
	case "pre":
		// Stage 1, "about to call Lock()": a yield point like any other (always
		// eligible: being descheduled right before the call is one thing, having
		// called it another). None while holding another lock (unless this run
		// yields at nested acquisitions too), none when automatic yields are off
		// for the run, none inside a sync.Once.
		s.mu.Lock()
		nested := s.depth[gid] > 0 && !s.autoNested
		s.mu.Unlock()
		if !nested && !s.AutoOff && !insideOnce() {
			s.Hook("lock@"+site, nil)
		}
		// Stage 2, the call itself. If the mutex is held - by a task parked
		// inside its critical section (the per-service deploy lock and the
		// snapshot lock are held across yield points), by a goroutine running in
		// this very step, or, for RLock, wanted by a pending writer - the
		// goroutine waits as a parked task rather than in a real Lock(), which
		// would keep the bubble from becoming quiescent. A would-be writer is a
		// pending writer from here on. The scheduler lets such a waiter continue,
		// without a decision, a tick or a trace entry, at the first quiescent
		// point at which the mutex is free: exactly what the mutex itself would
		// have done, so the step structure does not depend on who won a race
		// inside a step. Lock-order cycles are found in the wait-for graph.
		s.mu.Lock()
		busy := !s.lockFreeLocked(m, mode, gid)
		var t *Task
		if busy && !s.disabled[lockHeldPoint] {
			if mode == "W" {
				ls := s.locks[m]
				if ls == nil {
					ls = &lockState{}
					s.locks[m] = ls
				}
				ls.pendingW++
				s.announced[gid] = m
			}
			t = s.tasks[gid]
			if t == nil {
				// not a task yet: wait under a throw-away identity, so that the
				// name this goroutine gets at its first real yield point does
				// not depend on whether it had to wait here
				t = &Task{name: fmt.Sprintf("~%020d", gid), kind: "repo", wake: make(chan struct{})}
			}
		}
		s.mu.Unlock()
		if t != nil {
			s.park(t, lockHeldPoint, lockWant{m: m, mode: mode, gid: gid, site: site})
		}
	case "acq":
		s.mu.Lock()
		s.depth[gid]++
		ls := s.locks[m]
		if ls == nil {
			ls = &lockState{}
			s.locks[m] = ls
		}
		if mode == "W" {
			ls.writer = gid
			if s.announced[gid] == m {
				delete(s.announced, gid)
				if ls.pendingW > 0 {
					ls.pendingW--
				}
			}
		} else {
			ls.readers++
			if ls.readerG == nil {
				ls.readerG = map[uint64]int{}
			}
			ls.readerG[gid]++
		}
		s.mu.Unlock()
	case "rel":
		s.mu.Lock()
		if s.depth[gid] > 0 {
			s.depth[gid]--
		}
		if ls := s.locks[m]; ls != nil {
			if mode == "W" {
				ls.writer = 0
			} else if ls.readers > 0 {
				ls.readers--
				if ls.readerG[gid]--; ls.readerG[gid] <= 0 {
					delete(ls.readerG, gid)
				}
			}
		}
		s.mu.Unlock()
	}
}

// FSHook is installed as server.SimFSHook in autoyield builds: the goroutine is
// about to change the file system (create, write, close, rename, remove). It is
// a yield point like any other - other goroutines, e.g. a second snapshot
// writer, may run in between two file operations - and the world takes a crash
// copy of the state directory at each of them.
func (s *Sim) FSHook(op, site string) {
	if s.Free || !s.active.Load() || insideOnce() {
		return
	}
	s.Hook("fs@"+site+":"+op, nil)
}

// insideOnce reports whether the caller runs inside a sync.Once.Do: the Once
// holds a mutex of its own that the instrumentation does not see, so a task
// parked there would leave a second caller of the same Once spinning on a real
// lock and the bubble could never become quiescent. No automatic yield there.
func insideOnce() bool {
	var pcs [48]uintptr
	n := runtime.Callers(3, pcs[:])
	frames := runtime.CallersFrames(pcs[:n])
	for {
		f, more := frames.Next()
		if strings.HasPrefix(f.Function, "sync.(*Once).") {
			return true
		}
		if !more {
			return false
		}
	}
}

// lockKey turns the instrumented operand (&x where x is a mutex, or where x is
// itself a pointer to one) into the address of the mutex.
func lockKey(m any) any {
	v := reflect.ValueOf(m)
	for v.Kind() == reflect.Ptr && !v.IsNil() && v.Elem().Kind() == reflect.Ptr {
		v = v.Elem()
	}
	if v.Kind() == reflect.Ptr {
		return v.Pointer()
	}
	return m
}

func (s *Sim) lockFreeLocked(m any, mode string, gid uint64) bool {
	ls := s.locks[m]
	if ls == nil {
		return true
	}
	if ls.writer != 0 && ls.writer != gid {
		return false
	}
	if mode == "R" {
		return ls.pendingW == 0
	}
	return ls.readers == 0
}

// SetHold arms a hold for the calling goroutine's task (one shot).
func (s *Sim) SetHold(h *Hold) {
	gid := curGID()
	s.mu.Lock()
	if t := s.tasks[gid]; t != nil {
		t.hold, t.holdSkip = h, 0
	}
	s.mu.Unlock()
}

// NotePoint counts an occurrence of a pseudo yield point (e.g. "cmd.ret").
func (s *Sim) NotePoint(point string) {
	s.mu.Lock()
	s.pointN[point]++
	s.mu.Unlock()
}

// eligible filters out tasks whose hold has not expired. It returns the
// eligible tasks and the shortest remaining hold.
func (s *Sim) eligible(parked []*Task) ([]*Task, time.Duration) {
	s.mu.Lock()
	defer s.mu.Unlock()
	var out []*Task
	minLeft := time.Duration(0)
	now := s.Now()
	lockBlocked := false
	for _, t := range parked {
		if t.point == lockHeldPoint {
			// continues by itself once the mutex is free (releaseLockWaiter)
			lockBlocked = true
			continue
		}
		if sec := s.sections[t.point]; sec != nil {
			if o := sec.owners[sec.key(t.arg)]; o != nil && o != t {
				continue // someone is inside the critical section this task wants to enter
			}
		}
		if lw, ok := t.arg.(lockWant); ok && !s.lockFreeLocked(lw.m, lw.mode, 0) {
			// the mutex this task is about to take is held: releasing it would block a goroutine on a real lock
			lockBlocked = true
			continue
		}
		if t.held && t.holdInfo != nil {
			h := t.holdInfo
			n := h.N
			if n <= 0 {
				n = 1
			}
			left := t.heldSince + h.Max - now
			if s.pointN[h.For]-t.heldBase >= n || left <= 0 {
				t.held = false
			} else {
				if minLeft == 0 || left < minLeft {
					minLeft = left
				}
				continue
			}
		}
		out = append(out, t)
	}
	if lockBlocked && s.Deadlock == "" {
		s.Deadlock = s.lockCycleLocked(parked)
	}
	return out, minLeft
}

// TaskName returns the name of the calling goroutine's task ("" if none).
func (s *Sim) TaskName() string {
	gid := curGID()
	s.mu.Lock()
	defer s.mu.Unlock()
	if t := s.tasks[gid]; t != nil {
		return t.name
	}
	return ""
}

func (s *Sim) snapshotParked() ([]*Task, int) {
	s.mu.Lock()
	defer s.mu.Unlock()
	ps := append([]*Task(nil), s.parked...)
	sort.Slice(ps, func(i, j int) bool { return ps[i].name < ps[j].name })
	return ps, s.actors
}

func (s *Sim) unpark(t *Task) {
	s.mu.Lock()
	for i, p := range s.parked {
		if p == t {
			s.parked = append(s.parked[:i], s.parked[i+1:]...)
			break
		}
	}
	t.parked = false
	t.held = false
	s.mu.Unlock()
}

// Run is the scheduler loop; it must be called from the bubble's root
// goroutine after the actors were started with Go.
func (s *Sim) Run() error {
	if s.Free {
		return s.runFree()
	}
	defer s.Stop()
	for {
		synctest.Wait()
		for s.releaseLockWaiter() {
			synctest.Wait()
		}
		if s.onIdle != nil {
			if err := s.onIdle(); err != nil {
				return err
			}
		}
		parked, actors := s.snapshotParked()
		if actors == 0 {
			return nil
		}
		if s.steps >= s.knobs.MaxSteps {
			s.Budget = fmt.Sprintf("steps>%d", s.knobs.MaxSteps)
			return nil
		}
		if s.Now() >= s.knobs.MaxVirtual {
			s.Budget = fmt.Sprintf("virtual>%v", s.knobs.MaxVirtual)
			return nil
		}
		s.steps++
		all := parked
		parked, holdLeft := s.eligible(parked)
		if s.Deadlock != "" {
			s.Budget = "deadlock"
			return nil
		}
		choice := s.decide(parked)
		if choice == nil && len(parked) == 0 && len(all) > 0 {
			// only held tasks are parked: let time pass until something else
			// happens or the shortest hold runs out
			s.trace = append(s.trace, Decision{Task: advanceName, Point: "hold"})
			select {
			case <-s.arrival:
			default:
			}
			if holdLeft <= 0 {
				holdLeft = time.Hour // blocked on a lock held by a task that is itself waiting: wait for whatever happens next
			}
			timer := s.NewTimer(holdLeft)
			select {
			case <-s.arrival:
			case <-timer.C:
			}
			timer.Stop()
			continue
		}
		if choice == nil {
			d := time.Hour
			pt := ""
			if len(parked) > 0 { // a stall: bounded advance while tasks are parked
				d = s.knobs.StallDelta
				s.stalls++
				pt = "stall"
				s.H.Add(Event{Kind: "stall", Info: d.String()})
			}
			s.trace = append(s.trace, Decision{Task: advanceName, Point: pt})
			select { // drain stale arrival
			case <-s.arrival:
			default:
			}
			timer := s.NewTimer(d)
			select {
			case <-s.arrival:
			case <-timer.C:
			}
			timer.Stop()
			continue
		}
		s.trace = append(s.trace, Decision{Task: choice.name, Point: choice.point})
		s.tick()
		synctest.Wait()
		s.unpark(choice)
		s.mu.Lock()
		s.pointN[choice.point]++
		if sec := s.sections[choice.point]; sec != nil {
			sec.owners[sec.key(choice.arg)] = choice
		}
		s.mu.Unlock()
		s.last = choice
		if s.onStep != nil {
			s.onStep(choice)
		}
		choice.wake <- struct{}{}
	}
}

// releaseLockWaiter lets the lowest-named task that waits (invisibly, see
// LockHook) for a mutex that is now free continue. It reports whether it
// released one.
func (s *Sim) releaseLockWaiter() bool {
	s.mu.Lock()
	var pick *Task
	for _, t := range s.parked {
		if t.point != lockHeldPoint {
			continue
		}
		lw := t.arg.(lockWant)
		if s.lockFreeLocked(lw.m, lw.mode, 0) && (pick == nil || t.name < pick.name) {
			pick = t
		}
	}
	s.mu.Unlock()
	if pick == nil {
		return false
	}
	s.unpark(pick)
	// In the history this is a step of its own (the goroutine goes on, at a
	// quiescent point, and takes the mutex now), marked with "!": oracles that
	// need the instant of an acquisition must not take the yield in front of
	// the call for it.
	s.H.Add(Event{Kind: "step", Task: pick.name, Info: "lock@" + pick.arg.(lockWant).site + "!"})
	pick.wake <- struct{}{}
	return true
}

// Stop turns every yield point into a no-op and releases all parked tasks.
func (s *Sim) Stop() {
	s.active.Store(false)
	if s.Deadlock != "" {
		// Leave everything parked: released tasks would run into the real
		// mutexes of the deadlocked goroutines and the bubble could never
		// become quiescent again. The run is over; the bubble ends with these
		// goroutines blocked, which Execute reports.
		return
	}
	s.mu.Lock()
	ps := s.parked
	s.parked = nil
	s.mu.Unlock()
	for _, t := range ps {
		t.wake <- struct{}{}
	}
}

func (s *Sim) decide(parked []*Task) *Task {
	if len(parked) == 0 {
		if s.replay != nil && s.rpos < len(s.replay) && s.replay[s.rpos].Task == advanceName {
			s.rpos++
		}
		return nil
	}
	if s.replay != nil {
		return s.decideReplay(parked)
	}
	// stalls: bounded number, only when configured
	if s.knobs.StallMax > s.stalls && s.knobs.StallP > 0 && s.rng.Float64() < s.knobs.StallP {
		return nil
	}
	switch s.knobs.Policy {
	case "sticky":
		if s.last != nil && s.last.parked && s.rng.Float64() >= s.knobs.PreemptP {
			for _, t := range parked { // only if it is eligible (not held)
				if t == s.last {
					return s.last
				}
			}
		}
		return parked[s.rng.Intn(len(parked))]
	case "pct":
		for _, t := range parked {
			if !t.hasPr {
				t.prio, t.hasPr = 1000+s.rng.Intn(1000000), true
			}
		}
		best := parked[0]
		for _, t := range parked[1:] {
			if t.prio > best.prio {
				best = t
			}
		}
		if s.pctPts[s.steps] {
			best.prio = s.rng.Intn(1000) // demote below every initial priority
		}
		return best
	default:
		return parked[s.rng.Intn(len(parked))]
	}
}

// decideReplay follows the recorded decisions; a decision that cannot be
// honoured (task not parked) is skipped, and when the list is exhausted the
// default is "lowest-named parked task, never stall".
func (s *Sim) decideReplay(parked []*Task) *Task {
	for s.rpos < len(s.replay) {
		d := s.replay[s.rpos]
		s.rpos++
		if d.Task == advanceName {
			if d.Point == "stall" && s.knobs.StallDelta > 0 {
				return nil
			}
			continue
		}
		for _, t := range parked {
			if t.name == d.Task {
				return t
			}
		}
		s.Diverge++
	}
	return parked[0]
}

// runFree waits for the actors without deciding anything: virtual time still
// advances when every goroutine is blocked, but interleavings are the Go
// scheduler's (this is the mode in which the race detector can fire).
func (s *Sim) runFree() error {
	defer s.Stop()
	deadline := s.NewTimer(s.knobs.MaxVirtual)
	defer deadline.Stop()
	for {
		s.mu.Lock()
		n := s.actors
		s.mu.Unlock()
		if n == 0 {
			return nil
		}
		select {
		case <-s.arrival:
		case <-deadline.C:
			s.Budget = "virtual>" + s.knobs.MaxVirtual.String()
			return nil
		}
	}
}
