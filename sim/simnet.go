package sim

import (
	"bytes"
	"context"
	"errors"
	"fmt"
	"io"
	"net"
	"os"
	"strings"
	"sync"
	"syscall"
	"time"
)

// ---------------------------------------------------------------------------
// In-memory network. All blocking is on sync.Cond / channels created inside
// the synctest bubble, i.e. durably blocking, so virtual time can advance.
// ---------------------------------------------------------------------------

type Addr string

func (a Addr) Network() string { return "tcp" }
func (a Addr) String() string  { return string(a) }

// Link describes how bytes written on one direction of a connection are
// delivered: after Latency, in fragments of at most Frag bytes (0 = whole),
// each later fragment FragGap after the previous one.
type Link struct {
	Latency time.Duration `json:"latency,omitempty"`
	Frag    int           `json:"frag,omitempty"`
	FragGap time.Duration `json:"frag_gap,omitempty"`
}

type half struct { // bytes flowing towards one endpoint
	buf      []byte
	eof      bool
	rst      bool
	lastAt   time.Time // delivery time of the last queued item
	deadline time.Time
	dlTimer  *time.Timer
}

type connPair struct {
	mu     sync.Mutex
	cond   *sync.Cond
	h      [2]half // h[i] = data readable by endpoint i
	closed [2]bool // endpoint i closed its side
	gone   [2]chan struct{}
	link   [2]Link // link[i] = policy for data written BY endpoint i
	id     string
	n      *Net
}

// Conn is one endpoint of an in-memory connection.
type Conn struct {
	p      *connPair
	side   int
	local  Addr
	remote Addr
}

func (n *Net) newPair(id string, a, b Addr) (*Conn, *Conn) {
	p := &connPair{id: id, n: n}
	p.cond = sync.NewCond(&p.mu)
	p.gone[0], p.gone[1] = make(chan struct{}), make(chan struct{})
	c0 := &Conn{p: p, side: 0, local: a, remote: b}
	c1 := &Conn{p: p, side: 1, local: b, remote: a}
	sh := n.shardOf(string(b))
	sh.mu.Lock()
	sh.conns = append(sh.conns, c0)
	sh.mu.Unlock()
	return c0, c1
}

func (c *Conn) ID() string { return c.p.id }

// SetLink sets the delivery policy for bytes written by this endpoint.
func (c *Conn) SetLink(l Link) {
	c.p.mu.Lock()
	c.p.link[c.side] = l
	c.p.mu.Unlock()
}

// PeerGone is closed when the other endpoint has closed.
func (c *Conn) PeerGone() <-chan struct{} { return c.p.gone[1-c.side] }

func (c *Conn) Read(b []byte) (int, error) {
	p := c.p
	p.mu.Lock()
	defer p.mu.Unlock()
	h := &p.h[c.side]
	for {
		if p.closed[c.side] {
			return 0, net.ErrClosed
		}
		if h.rst {
			return 0, &net.OpError{Op: "read", Net: "tcp", Addr: c.remote, Err: syscall.ECONNRESET}
		}
		if len(h.buf) > 0 {
			n := copy(b, h.buf)
			h.buf = h.buf[n:]
			return n, nil
		}
		if h.eof {
			return 0, io.EOF
		}
		if !h.deadline.IsZero() && !time.Now().Before(h.deadline) {
			return 0, &net.OpError{Op: "read", Net: "tcp", Addr: c.remote, Err: os.ErrDeadlineExceeded}
		}
		if len(b) == 0 {
			return 0, nil
		}
		p.cond.Wait()
	}
}

// deliver applies fn to the peer's inbound half, now or after the link delay,
// preserving order. Caller holds p.mu.
func (p *connPair) deliverLocked(from int, delay time.Duration, fn func(h *half)) {
	h := &p.h[1-from]
	now := time.Now()
	at := now.Add(delay)
	if !at.After(h.lastAt) {
		at = h.lastAt.Add(time.Microsecond)
	}
	if !at.After(now) {
		fn(h)
		p.cond.Broadcast()
		return
	}
	at = p.n.S.uniqueInstant(at.Sub(now))
	h.lastAt = at
	time.AfterFunc(at.Sub(now), func() {
		p.mu.Lock()
		fn(h)
		p.cond.Broadcast()
		p.mu.Unlock()
	})
}

func (c *Conn) Write(b []byte) (int, error) {
	p := c.p
	p.mu.Lock()
	defer p.mu.Unlock()
	if p.closed[c.side] {
		return 0, net.ErrClosed
	}
	if p.closed[1-c.side] || p.h[c.side].rst {
		return 0, &net.OpError{Op: "write", Net: "tcp", Addr: c.remote, Err: syscall.EPIPE}
	}
	if c.side == 0 && p.n != nil && strings.HasPrefix(p.id, "proxy/") {
		// the proxy put request bytes on the wire to a target
		rid := requestIDIn(b)
		p.n.H.Add(Event{Kind: "net.write", Target: string(p.connTarget()), Obj: p.id, N: len(b), Req: rid})
		if rid != "" && p.n.onProxyWrite != nil {
			p.n.onProxyWrite(rid)
		}
	}
	l := p.link[c.side]
	data := append([]byte(nil), b...)
	frag := l.Frag
	if frag <= 0 || frag >= len(data) {
		p.deliverLocked(c.side, l.Latency, func(h *half) { h.buf = append(h.buf, data...) })
		return len(b), nil
	}
	delay := l.Latency
	for off := 0; off < len(data); off += frag {
		end := off + frag
		if end > len(data) {
			end = len(data)
		}
		piece := data[off:end]
		p.deliverLocked(c.side, delay, func(h *half) { h.buf = append(h.buf, piece...) })
		delay += l.FragGap
	}
	return len(b), nil
}

func (c *Conn) Close() error { return c.close(false) }

// Reset closes the endpoint like a TCP RST: the peer's pending data is
// discarded and its reads fail with ECONNRESET.
func (c *Conn) Reset() error { return c.close(true) }

func (c *Conn) close(reset bool) error {
	p := c.p
	p.mu.Lock()
	if p.closed[c.side] {
		p.mu.Unlock()
		return nil
	}
	p.closed[c.side] = true
	p.mu.Unlock()
	// record the cause before anything it wakes can record its reaction
	if p.n != nil && p.n.onClose != nil {
		p.n.onClose(c, reset)
	}
	p.mu.Lock()
	select {
	case <-p.gone[c.side]: // teardown got there first
	default:
		close(p.gone[c.side])
	}
	if reset {
		h := &p.h[1-c.side]
		h.rst, h.buf = true, nil
	} else {
		p.deliverLocked(c.side, p.link[c.side].Latency, func(h *half) { h.eof = true })
	}
	p.cond.Broadcast()
	p.mu.Unlock()
	return nil
}

// PeerClosed reports whether the other endpoint has closed.
func (c *Conn) PeerClosed() bool {
	select {
	case <-c.p.gone[1-c.side]:
		return true
	default:
		return false
	}
}

func (c *Conn) LocalAddr() net.Addr  { return c.local }
func (c *Conn) RemoteAddr() net.Addr { return c.remote }

func (c *Conn) SetDeadline(t time.Time) error {
	c.SetReadDeadline(t)
	return nil
}

func (c *Conn) SetReadDeadline(t time.Time) error {
	p := c.p
	p.mu.Lock()
	defer p.mu.Unlock()
	h := &p.h[c.side]
	h.deadline = t
	if h.dlTimer != nil {
		h.dlTimer.Stop()
		h.dlTimer = nil
	}
	if !t.IsZero() {
		if d := time.Until(t); d > 0 {
			h.dlTimer = time.AfterFunc(d, func() {
				p.mu.Lock()
				p.cond.Broadcast()
				p.mu.Unlock()
			})
		}
	}
	p.cond.Broadcast()
	return nil
}

func (c *Conn) SetWriteDeadline(t time.Time) error { return nil } // writes never block

// ---------------------------------------------------------------------------

// Endpoint is whatever listens on an address.
type Endpoint interface {
	// Connect is called for a dial to this address. kind is "probe" or
	// "proxy" or "client". It returns an error to refuse, or accepts the
	// server-side conn.
	Connect(ctx context.Context, kind string, client Addr) (accept func(server *Conn), err error)
}

// shard is the per-address part of the network's bookkeeping. Keeping it per
// address (instead of one global lock) matters in race mode: a global harness
// lock taken by every dial would order unrelated proxy goroutines and hide
// races between them.
type shard struct {
	mu    sync.Mutex
	ep    Endpoint
	seq   int
	base  int
	conns []*Conn
}

type Net struct {
	regMu        sync.Mutex
	shards       sync.Map // addr -> *shard
	nshards      int
	onClose      func(c *Conn, reset bool)
	onProxyWrite func(rid string)
	H            *History
	S            *Sim
}

func NewNet(h *History, s *Sim) *Net {
	return &Net{H: h, S: s}
}

func (n *Net) shardOf(addr string) *shard {
	if v, ok := n.shards.Load(addr); ok {
		return v.(*shard)
	}
	n.regMu.Lock()
	defer n.regMu.Unlock()
	if v, ok := n.shards.Load(addr); ok {
		return v.(*shard)
	}
	n.nshards++
	sh := &shard{base: 20000 + n.nshards*500}
	n.shards.Store(addr, sh)
	return sh
}

func (n *Net) Register(addr string, e Endpoint) {
	sh := n.shardOf(addr)
	sh.mu.Lock()
	sh.ep = e
	sh.mu.Unlock()
}

func (n *Net) Unregister(addr string) {
	sh := n.shardOf(addr)
	sh.mu.Lock()
	sh.ep = nil
	sh.mu.Unlock()
}

var errRefused = &net.OpError{Op: "dial", Net: "tcp", Err: os.NewSyscallError("connect", syscall.ECONNREFUSED)}

type timeoutErr struct{}

func (timeoutErr) Error() string   { return "i/o timeout" }
func (timeoutErr) Timeout() bool   { return true }
func (timeoutErr) Temporary() bool { return true }

// Dialer returns a DialContext function for connections of the given kind
// originating from the given source IP.
func (n *Net) Dialer(kind, srcIP string) func(ctx context.Context, network, addr string) (net.Conn, error) {
	return func(ctx context.Context, network, addr string) (net.Conn, error) {
		return n.Dial(ctx, kind, srcIP, addr)
	}
}

func (n *Net) Dial(ctx context.Context, kind, srcIP, addr string) (*Conn, error) {
	if err := ctx.Err(); err != nil {
		return nil, err
	}
	sh := n.shardOf(addr)
	sh.mu.Lock()
	e := sh.ep
	sh.seq++
	client := Addr(fmt.Sprintf("%s:%d", srcIP, sh.base+sh.seq%500))
	id := fmt.Sprintf("%s/%s#%d", kind, addr, sh.seq)
	sh.mu.Unlock()
	if e == nil {
		n.H.Add(Event{Kind: "net.refused", Target: addr, Obj: id, Info: kind})
		return nil, errRefused
	}
	accept, err := e.Connect(ctx, kind, client)
	if err != nil {
		n.H.Add(Event{Kind: "net.dialfail", Target: addr, Obj: id, Info: kind, Err: err.Error()})
		return nil, err
	}
	c, s := n.newPair(id, client, Addr(addr))
	n.H.Add(Event{Kind: "net.open", Target: addr, Obj: id, Info: kind})
	accept(s)
	return c, nil
}

// HangDial blocks like a SYN into the void: until ctx is done or the kernel
// gives up (127 s).
func (n *Net) HangDial(ctx context.Context) error {
	t := n.S.NewTimer(127 * time.Second)
	defer t.Stop()
	select {
	case <-ctx.Done():
		return ctx.Err()
	case <-t.C:
		return &net.OpError{Op: "dial", Net: "tcp", Err: timeoutErr{}}
	}
}

// CloseAll closes every connection ever created (teardown).
func (n *Net) CloseAll() {
	var conns []*Conn
	n.shards.Range(func(_, v any) bool {
		sh := v.(*shard)
		sh.mu.Lock()
		conns = append(conns, sh.conns...)
		sh.mu.Unlock()
		return true
	})
	for _, c := range conns {
		c.p.mu.Lock()
		for side := 0; side < 2; side++ {
			if !c.p.closed[side] {
				c.p.closed[side] = true
				close(c.p.gone[side])
			} else {
				select {
				case <-c.p.gone[side]:
				default:
					close(c.p.gone[side])
				}
			}
			c.p.h[side].eof = true
		}
		c.p.cond.Broadcast()
		c.p.mu.Unlock()
	}
}

// ---------------------------------------------------------------------------

// Listener is a net.Listener on the in-memory network (used to run a real
// http.Server in front of the proxy handler).
type Listener struct {
	addr   Addr
	ch     chan *Conn
	done   chan struct{}
	once   sync.Once
	OnConn func(c *Conn)
}

func (n *Net) Listen(addr string) *Listener {
	l := &Listener{addr: Addr(addr), ch: make(chan *Conn, 64), done: make(chan struct{})}
	n.Register(addr, l)
	return l
}

func (l *Listener) Connect(ctx context.Context, kind string, client Addr) (func(*Conn), error) {
	select {
	case <-l.done:
		return nil, errRefused
	default:
	}
	return func(s *Conn) {
		if l.OnConn != nil {
			l.OnConn(s)
		}
		l.ch <- s
	}, nil
}

func (l *Listener) Accept() (net.Conn, error) {
	select {
	case c := <-l.ch:
		return c, nil
	case <-l.done:
		return nil, net.ErrClosed
	}
}

func (l *Listener) Close() error {
	l.once.Do(func() { close(l.done) })
	return nil
}

func (l *Listener) Addr() net.Addr { return l.addr }

var _ net.Conn = (*Conn)(nil)
var _ = errors.New

// requestIDIn extracts the X-Request-Id header value if b holds a request head.
func requestIDIn(b []byte) string {
	const h = "\r\nX-Request-Id: "
	i := bytes.Index(b, []byte(h))
	if i < 0 {
		return ""
	}
	rest := b[i+len(h):]
	if j := bytes.Index(rest, []byte("\r\n")); j >= 0 {
		return string(rest[:j])
	}
	return ""
}
