package sim

import (
	"fmt"
	"math/rand"
	"sort"
	"strings"
	"time"
)

// C09 — only healthy targets receive traffic, in fair rotation.

func init() {
	Register(&Prop{
		ID:    "C09",
		Gen:   genC09,
		Check: checkC09,
		Nontrivial: func(r *RunResult) bool {
			return r.Probes["healthy_set_changes"] >= 2
		},
	})
}

func genC09(seed int64, tier string) *Scenario {
	rng := rand.New(rand.NewSource(seed))
	sc := &Scenario{Prop: "C09", Seed: seed}
	sc.Sched = genSched(rng, tier, true)
	sc.Sched.MaxSteps = 20000
	interval := time.Duration(pick(rng, 100, 200, 500)) * time.Millisecond
	sc.HC = HCKnobs{Interval: interval, Timeout: time.Duration(pick(rng, 50, 100, 300)) * time.Millisecond}
	k := 1 + rng.Intn(4)
	var names []string
	horizon := 12 * interval
	for j := 0; j < k; j++ {
		addr := fmt.Sprintf("t%d:80", j)
		names = append(names, addr)
		ts := TargetSpec{Addr: addr}
		// after deployment (all become healthy at once) each target follows its own timeline
		switch rng.Intn(5) {
		case 0: // steady
		case 1, 2: // fails for a while, recovers
			a := time.Duration(1+rng.Intn(4)) * interval
			b := a + time.Duration(1+rng.Intn(4))*interval
			ts.Phases = []Phase{{Until: a + 7*time.Millisecond, Kind: "ok"}, failPhase(rng, sc.HC.Timeout, b+7*time.Millisecond), {Kind: "ok"}}
		case 3: // flaps twice
			a := time.Duration(1+rng.Intn(2)) * interval
			ts.Phases = []Phase{{Until: a + 7*time.Millisecond, Kind: "ok"}, failPhase(rng, sc.HC.Timeout, a+2*interval+7*time.Millisecond), {Until: a + 4*interval + 7*time.Millisecond, Kind: "ok"}, failPhase(rng, sc.HC.Timeout, a+6*interval+7*time.Millisecond), {Kind: "ok"}}
		case 4: // fails for good
			a := time.Duration(1+rng.Intn(5)) * interval
			ts.Phases = []Phase{{Until: a + 7*time.Millisecond, Kind: "ok"}, failPhase(rng, sc.HC.Timeout, 0)}
		}
		sc.Targets = append(sc.Targets, ts)
	}
	// in a fifth of the runs every target fails during the same period
	if rng.Intn(5) == 0 {
		a := time.Duration(2+rng.Intn(3)) * interval
		for j := range sc.Targets {
			sc.Targets[j].Phases = []Phase{{Until: a + 7*time.Millisecond, Kind: "ok"}, failPhase(rng, sc.HC.Timeout, a+3*interval+7*time.Millisecond), {Kind: "ok"}}
		}
	}
	deployTimeout := 5 * time.Second
	if rng.Intn(6) == 0 {
		// one target answers its first 2xx just before the deploy timeout, and
		// the goroutine completing that probe is descheduled across the expiry
		j := rng.Intn(len(sc.Targets))
		for i := range sc.Targets {
			if i != j {
				sc.Targets[i].Phases = nil
			}
		}
		deployTimeout = deadlineRace(rng, sc, &sc.Targets[j], interval)
	}
	sc.Actors = append(sc.Actors, ActorSpec{Name: "op", Ops: []Op{{Kind: "deploy", Service: "web", Targets: names, DeployTimeout: deployTimeout, DrainTimeout: time.Second}}})
	nc := 1 + rng.Intn(4)
	for c := 0; c < nc; c++ {
		a := ActorSpec{Name: fmt.Sprintf("client%d", c)}
		nr := 6 + rng.Intn(14)
		for i := 0; i < nr; i++ {
			o := Op{Kind: "request", Path: "/x"}
			switch rng.Intn(4) {
			case 0: // back to back
			case 1:
				alignOp(rng, &o, []string{"hc.report", "health.completed", "health.updated", "lb.stateChanged", "hc.check", "tgt.probe"}, 30)
				o.Delay = horizon / 4
			default:
				o.Delay = time.Duration(rng.Intn(int(horizon/time.Millisecond)/nr+1)) * time.Millisecond
			}
			if i == 0 {
				o.Delay += 20 * time.Millisecond
			}
			if rng.Intn(4) == 0 {
				o.Sim = simDirective(time.Duration(1+rng.Intn(30))*time.Millisecond, 0, "")
			}
			a.Ops = append(a.Ops, o)
		}
		sc.Actors = append(sc.Actors, a)
	}
	return sc
}

func failPhase(rng *rand.Rand, hcTimeout time.Duration, until time.Duration) Phase {
	var p Phase
	switch rng.Intn(6) {
	case 4:
		p = Phase{Kind: "cutbody", Status: pick(rng, 500, 503)}
	case 5:
		p = Phase{Kind: "stallbody", Status: pick(rng, 500, 503)}
	case 0:
		p = Phase{Kind: "status", Status: pick(rng, 500, 503, 404, 302)}
	case 1:
		p = Phase{Kind: "hang"}
	case 2:
		p = Phase{Kind: "slow", Delay: hcTimeout + 20*time.Millisecond}
	default:
		p = Phase{Kind: "refuse"}
	}
	p.Until = until
	return p
}

// healthView reconstructs, from the history, when a probe outcome of a target
// was published to the load balancer.
//
// A probe failure is PUBLISHED once the health-check goroutine that saw it has
// told the load balancer (the step released at "lb.stateChanged" has run, i.e.
// the next scheduler step began), or, when that yield point is switched off,
// at the latest when the same target's next probe is sent (the goroutine is
// sequential). A probe success is RECEIVED when the fake target wrote the 2xx.
type healthView struct {
	failPublished map[string][]int // target -> seqs at which a failure was certainly published
	okReceived    map[string][]int // target -> seqs of 2xx probe responses written
	okPublished   map[string][]int
	changes       []int // seqs of steps that may change some healthy set
}

func buildHealthView(r *RunResult, ix *stepIdx, targets map[string]bool) *healthView {
	hv := &healthView{failPublished: map[string][]int{}, okReceived: map[string][]int{}, okPublished: map[string][]int{}}
	lastOutcome := map[string]string{} // per target: "ok" / "fail" of the latest completed probe
	pendingPublish := map[string]string{}
	evs := r.H.Events
	for i := range evs {
		e := &evs[i]
		if !targets[e.Target] {
			continue
		}
		switch e.Kind {
		case "tgt.proberesp":
			if is2xx(e.Status) {
				lastOutcome[e.Target] = "ok"
				hv.okReceived[e.Target] = append(hv.okReceived[e.Target], e.Seq)
			} else {
				lastOutcome[e.Target] = "fail"
			}
			pendingPublish[e.Target] = lastOutcome[e.Target]
		case "tgt.probeabort", "net.refused", "net.dialfail":
			lastOutcome[e.Target] = "fail"
			pendingPublish[e.Target] = "fail"
		case "tgt.probe":
			if e.Info == "refuse" || e.Info == "reset" {
				lastOutcome[e.Target] = "fail"
				pendingPublish[e.Target] = "fail"
			}
		case "step":
			if e.Info == "lb.stateChanged" || e.Info == "hc.check" {
				// the step AFTER this one starts => the update has run. For
				// hc.check (next probe) the previous outcome is published already.
				pub := e.Seq
				if e.Info == "lb.stateChanged" {
					// with automatic lock yields the update itself runs in a later
					// step of the same goroutine (the one that takes the balancer's lock)
					tail := ix.lockTail(e, "")
					pub = nextStepSeqAfter(evs, tail.Seq)
					if tail == e && ix.hasLockSteps(e.Task) {
						// automatic yields are on for this goroutine and it has not
						// been released from the yield in front of the balancer's
						// lock yet (the run may end first): nothing is published
						pub = 0
					}
					hv.changes = append(hv.changes, e.Seq)
				}
				if o := pendingPublish[e.Target]; o != "" && pub > 0 {
					if o == "fail" {
						hv.failPublished[e.Target] = append(hv.failPublished[e.Target], pub)
					} else {
						hv.okPublished[e.Target] = append(hv.okPublished[e.Target], pub)
					}
					delete(pendingPublish, e.Target)
				}
			}
		}
	}
	return hv
}

// nextStepSeqAfter returns the seq of the first step (or stall) event after seq.
func nextStepSeqAfter(evs []Event, seq int) int {
	i := sort.Search(len(evs), func(k int) bool { return evs[k].Seq >= seq })
	for j := i + 1; j < len(evs); j++ {
		if evs[j].Kind == "step" || evs[j].Kind == "stall" {
			return evs[j].Seq
		}
	}
	return 0
}

func checkC09(r *RunResult) []Violation {
	var out []Violation
	w := r.W
	var dep *CmdResult
	for _, c := range w.Cmds {
		if c.Op.Kind == "deploy" {
			dep = c
		}
	}
	if dep == nil || dep.Ret == 0 || dep.Err != nil {
		return out
	}
	targets := map[string]bool{}
	for _, t := range dep.Op.Targets {
		targets[t] = true
	}
	k := len(targets)
	ix := stepIndex(r.H)
	hv := buildHealthView(r, ix, targets)
	served := map[string]string{} // req -> target that received it
	for i := range r.H.Events {
		e := &r.H.Events[i]
		if e.Kind == "tgt.recv" && targets[e.Target] {
			served[e.Req] = e.Target
		}
	}
	// (a) exclusion: a request that started its claim after a failure of t was
	// published, and finished before the next 2xx of t was received, must not
	// have been sent to t.
	for _, q := range w.Responses {
		if q.Ret == 0 || q.Call < dep.Ret {
			continue
		}
		t := served[q.ReqID]
		if t == "" {
			continue
		}
		claim := ix.reqStep(q.ReqID, "router.serve")
		if claim == 0 {
			claim = q.Call
		}
		for _, fp := range hv.failPublished[t] {
			if fp > claim {
				continue
			}
			// any 2xx received between the publication and the end of the request?
			recovered := false
			for _, okSeq := range hv.okReceived[t] {
				if okSeq > fp-1 && okSeq < q.Ret {
					recovered = true
				}
			}
			// the failure itself must be the latest outcome before the claim:
			// a later 2xx received before fp would have been overwritten by this failure only if it came before it
			if !recovered {
				out = append(out, Violation{Prop: "C09", Clause: "request-sent-to-unhealthy-target",
					Msg: fmt.Sprintf("request %s (#%d..#%d) was sent to %s although a probe failure of that target had been published at #%d and no 2xx probe response followed before the request ended", q.ReqID, q.Call, q.Ret, t, fp)})
				break
			}
		}
	}
	// (b) strict rotation inside windows in which no health state may have changed
	type claimRec struct {
		seq    int
		target string
		status int
		req    string
	}
	var claims []claimRec
	for _, q := range w.Responses {
		if q.Ret == 0 {
			continue
		}
		// every request that claimed on the (only) load balancer takes part in the
		// rotation, also one that was issued before the deploy command returned
		// and claimed after the install (leaving it out made two claims look
		// adjacent that were not: false alarm of the first thorough run)
		ce := ix.reqStepEvent(q.ReqID, "lb.claim")
		if ce == nil {
			continue // yield point off in this run: claim order unknown
		}
		// the pick runs in the step released at "lb.claim", or, with automatic
		// lock yields, in the step that takes the balancer's lock right after it
		c := ix.lockTail(ce, "load_balancer.go:").Seq
		claims = append(claims, claimRec{seq: c, target: served[q.ReqID], status: q.Status, req: q.ReqID})
	}
	sort.Slice(claims, func(i, j int) bool { return claims[i].seq < claims[j].seq })
	// boundaries: every step that may change a healthy set (lb.stateChanged), plus
	// health.updated/health.completed steps when lb.stateChanged is switched off
	var bounds []int
	for _, e := range ix.all {
		switch e.Info {
		case "lb.stateChanged", "health.updated", "health.completed", "hc.report":
			if targets[e.Target] {
				bounds = append(bounds, e.Seq)
			}
		default:
			// automatic lock yields inside the health-check goroutines: the state
			// change and the balancer's update run in one of these steps
			if strings.HasPrefix(e.Info, "lock@") && strings.HasPrefix(e.Task, "hc:") {
				bounds = append(bounds, e.Seq)
			}
		}
	}
	sort.Ints(bounds)
	r.Probes["healthy_set_changes"] = len(hv.changes) - k // the initial adding->healthy transitions do not count
	if r.Probes["healthy_set_changes"] < 0 {
		r.Probes["healthy_set_changes"] = 0
	}
	windowOf := func(seq int) int { return sort.SearchInts(bounds, seq) }
	for i := 0; i < len(claims); {
		j := i
		for j < len(claims) && windowOf(claims[j].seq) == windowOf(claims[i].seq) {
			j++
		}
		win := claims[i:j]
		i = j
		// healthy set used in this window = set of targets that served (unknown otherwise);
		// rotation means: the served sequence is periodic with period = number of distinct servers,
		// and every contiguous run gives each server floor or ceil of its share.
		set := map[string]bool{}
		n503 := 0
		for _, c := range win {
			if c.target != "" {
				set[c.target] = true
			} else if c.status == 503 {
				n503++
			}
		}
		if len(set) > 0 && n503 > 0 {
			out = append(out, Violation{Prop: "C09", Clause: "503-while-healthy-target-in-rotation",
				Msg: fmt.Sprintf("within one window without health changes (claims #%d..#%d) some requests were served by %v and %d others got 503", win[0].seq, win[len(win)-1].seq, sortedKeys(set), n503)})
			continue
		}
		ks := len(set)
		if ks == 0 {
			continue
		}
		if len(win) > ks {
			r.Probes["rotation_windows_checked"]++
		}
		for a := 0; a < len(win); a++ {
			cnt := map[string]int{}
			for b := a; b < len(win); b++ {
				cnt[win[b].target]++
				n := b - a + 1
				lo, hi := n/ks, (n+ks-1)/ks
				if n < ks {
					lo = 0
				}
				bad := false
				for t := range set {
					if cnt[t] < lo || cnt[t] > hi {
						bad = true
					}
				}
				if bad {
					var seqs []string
					for _, c := range win[a : b+1] {
						seqs = append(seqs, c.target)
					}
					out = append(out, Violation{Prop: "C09", Clause: "rotation-not-fair",
						Msg: fmt.Sprintf("with the healthy set unchanged, %d consecutive claims (#%d..#%d) went to %v: not a strict rotation over %v", n, win[a].seq, win[b].seq, seqs, sortedKeys(set))})
					a = len(win)
					break
				}
			}
		}
	}
	// (c) nothing healthy => 503, and in particular no 503 while a target is
	// certainly healthy and nothing changed: covered by (b). Here: a request sent
	// to a target although every target's failure was published is covered by (a).
	// (d) probes keep arriving at the configured cadence for the whole run
	z := slack(r.Sc)
	for _, th := range r.Sc.TaskHolds {
		z += th.Hold.Max // a probe goroutine that is descheduled does not probe
	}
	lastProbe := map[string]time.Duration{}
	for i := range r.H.Events {
		e := &r.H.Events[i]
		if !targets[e.Target] {
			continue
		}
		if (e.Kind == "net.open" && e.Info == "probe") || ((e.Kind == "net.refused" || e.Kind == "net.dialfail") && e.Info == "probe") || (e.Kind == "tgt.probe" && (e.Info == "refuse" || e.Info == "reset")) {
			if lp, ok := lastProbe[e.Target]; ok {
				if gap := e.T - lp; gap > r.Sc.HC.Interval+r.Sc.HC.Timeout+z {
					out = append(out, Violation{Prop: "C09", Clause: "probe-cadence",
						Msg: fmt.Sprintf("target %s was not probed for %v (interval %v, probe timeout %v) before #%d", e.Target, gap, r.Sc.HC.Interval, r.Sc.HC.Timeout, e.Seq)})
				}
			}
			lastProbe[e.Target] = e.T
		}
	}
	for t := range targets {
		if lp, ok := lastProbe[t]; !ok || r.Virtual-lp > r.Sc.HC.Interval+r.Sc.HC.Timeout+z {
			out = append(out, Violation{Prop: "C09", Clause: "probe-cadence",
				Msg: fmt.Sprintf("target %s was last probed at t=%v but the run went on until t=%v (interval %v)", t, lp, r.Virtual, r.Sc.HC.Interval)})
		}
	}
	return out
}
