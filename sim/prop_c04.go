package sim

import (
	"fmt"
	"math/rand"
	"sort"
	"strings"
	"time"

	"github.com/anishathalye/porcupine"
)

// C04 — routing precedence; C05 — exclusive ownership of (host, prefix).
// One world: histories of deploy / redeploy-with-new-bindings / remove with
// routing probes as operations, sequential (C04, plus order-permutation and
// restore metamorphic checks) or concurrent (C05), checked for
// linearizability against a sequential model written from the property text.

func init() {
	Register(&Prop{ID: "C04", Gen: func(seed int64, tier string) *Scenario { return genRouting(seed, tier, "C04") }, Check: checkRouting,
		Nontrivial: func(r *RunResult) bool {
			return r.Probes["conflicts"]+r.Probes["bindings_moved"] > 0 && r.Probes["route_ops"] > 4
		}})
	Register(&Prop{ID: "C05", Gen: func(seed int64, tier string) *Scenario { return genRouting(seed, tier, "C05") }, Check: checkRouting,
		Nontrivial: func(r *RunResult) bool {
			return r.Probes["overlapping_deploys_on_common_pair"] > 0 || r.Probes["conflicts"] > 0
		}})
}

// ---- reference model (from the property text) --------------------------------

type rtBinding struct {
	Hosts []string
	Paths []string
}

type rtModel map[string]rtBinding // service -> bindings

func normHosts(h []string) []string {
	if len(h) == 0 {
		return []string{""}
	}
	return h
}

func normPaths(p []string) []string {
	if len(p) == 0 {
		return []string{"/"}
	}
	var out []string
	for _, x := range p {
		out = append(out, "/"+strings.Trim(x, "/"))
	}
	return out
}

func (m rtModel) conflicts(name string, b rtBinding) bool {
	for other, ob := range m {
		if other == name {
			continue
		}
		for _, h := range b.Hosts {
			for _, p := range b.Paths {
				for _, oh := range ob.Hosts {
					for _, op := range ob.Paths {
						if h == oh && p == op {
							return true
						}
					}
				}
			}
		}
	}
	return false
}

func stripPort(host string) string {
	if strings.HasPrefix(host, "[") { // IPv6 literal
		if i := strings.LastIndex(host, "]:"); i >= 0 {
			return host[1:i]
		}
		return host
	}
	if i := strings.LastIndex(host, ":"); i > 0 {
		return host[:i]
	}
	return host
}

// route: exact host, else "*." + parent domain, else no host; among those the
// longest prefix matching on a segment boundary; "" = 404.
func (m rtModel) route(host, path string) string {
	host = stripPort(host)
	level := func(h string) map[string]string { // prefix -> service for services bound to host h
		out := map[string]string{}
		for name, b := range m {
			for _, bh := range b.Hosts {
				if bh == h {
					for _, p := range b.Paths {
						out[p] = name
					}
				}
			}
		}
		return out
	}
	cands := level(host)
	if len(cands) == 0 {
		if i := strings.Index(host, "."); i > 0 {
			cands = level("*" + host[i:])
		}
	}
	if len(cands) == 0 {
		cands = level("")
	}
	best, bestLen := "", -1
	for p, name := range cands {
		if matchesOnBoundary(path, p) && len(p) > bestLen {
			best, bestLen = name, len(p)
		}
	}
	return best
}

func matchesOnBoundary(path, prefix string) bool {
	if prefix == "/" {
		return true
	}
	return path == prefix || strings.HasPrefix(path, prefix+"/")
}

func (m rtModel) encode() string {
	var parts []string
	for _, n := range sortedKeys(m) {
		parts = append(parts, n+"="+strings.Join(m[n].Hosts, ",")+"|"+strings.Join(m[n].Paths, ","))
	}
	return strings.Join(parts, ";")
}

func decodeModel(s string) rtModel {
	m := rtModel{}
	if s == "" {
		return m
	}
	for _, part := range strings.Split(s, ";") {
		n, rest, _ := strings.Cut(part, "=")
		h, p, _ := strings.Cut(rest, "|")
		m[n] = rtBinding{Hosts: strings.Split(h, ","), Paths: strings.Split(p, ",")}
	}
	return m
}

// ---- generator -------------------------------------------------------------

var rtHostPool = []string{"", "a.test", "b.test", "*.test", "x.a.test", "*.a.test", "single", "deep.x.a.test"}
var rtPathPool = []string{"", "/", "/api", "/apiary", "/api/v1", "api/", "/x/", "//y//"}
var rtProbeHosts = []string{"a.test", "b.test", "c.test", "x.a.test", "y.x.a.test", "deep.x.a.test", "single", "a.test:8080", "[::1]:80", "[::1]", "other.org", "test", ".test", "a.test."}
var rtProbePaths = []string{"/", "/api", "/api/", "/apiary", "/api/v1", "/api/v1/x", "/api/v2", "/x", "/x/y", "/y", "//y", "/apix", "/API", "/api//v1", "/zzz"}

func pickSome(rng *rand.Rand, pool []string, max int) []string {
	n := rng.Intn(max + 1)
	seen := map[string]bool{}
	var out []string
	for len(out) < n {
		x := pool[rng.Intn(len(pool))]
		// avoid duplicates after normalisation
		k := x
		if seen[k] {
			continue
		}
		seen[k] = true
		out = append(out, x)
	}
	return out
}

func dedupNorm(paths []string) []string {
	seen := map[string]bool{}
	var out []string
	for _, p := range paths {
		n := "/" + strings.Trim(p, "/")
		if !seen[n] {
			seen[n] = true
			out = append(out, p)
		}
	}
	return out
}

func genRouting(seed int64, tier, prop string) *Scenario {
	rng := rand.New(rand.NewSource(seed))
	sc := &Scenario{Prop: prop, Seed: seed, Params: map[string]int{}}
	sc.Sched = genSched(rng, tier, false)
	sc.Sched.MaxSteps = 60000
	sc.HC = HCKnobs{Interval: 5 * time.Second, Timeout: time.Second, TargetTimeout: 2 * time.Second}
	names := []string{"s1", "s2", "s3", "s4"}[:2+rng.Intn(3)]
	tcount := 0
	newTarget := func(svc string) []string {
		tcount++
		addr := fmt.Sprintf("%s-%d:80", svc, tcount)
		sc.Targets = append(sc.Targets, TargetSpec{Addr: addr})
		return []string{addr}
	}
	mkCmd := func() Op {
		name := names[rng.Intn(len(names))]
		if rng.Intn(5) == 0 {
			return Op{Kind: "remove", Service: name}
		}
		hp, pp := rtHostPool, rtPathPool
		if prop == "C05" && rng.Intn(2) == 0 { // small pools: racing deploys meet on the same pair
			hp, pp = rtHostPool[:3], rtPathPool[:3]
		}
		return Op{Kind: "deploy", Service: name, Hosts: pickSome(rng, hp, 2), Paths: dedupNorm(pickSome(rng, pp, 2)), Targets: newTarget(name), DeployTimeout: 2 * time.Second, DrainTimeout: 200 * time.Millisecond}
	}
	mkRoute := func() Op {
		return Op{Kind: "request", Host: rtProbeHosts[rng.Intn(len(rtProbeHosts))], Path: rtProbePaths[rng.Intn(len(rtProbePaths))]}
	}
	concurrent := prop == "C05"
	totalCmds := 0
	if concurrent {
		nops := 2 + rng.Intn(2)
		for a := 0; a < nops; a++ {
			act := ActorSpec{Name: fmt.Sprintf("op%d", a)}
			for i := 0; i < 2+rng.Intn(4); i++ {
				o := mkCmd()
				if rng.Intn(2) == 0 {
					alignOp(rng, &o, []string{"deploy.found", "deploy.healthy", "deploy.beforeUpdate", "deploy.beforeInstall", "router.install", "op.deploy", "op.remove"}, 6)
					o.Delay = 300 * time.Millisecond
				} else {
					o.Delay = time.Duration(rng.Intn(40)) * time.Millisecond
				}
				act.Ops = append(act.Ops, o)
				totalCmds++
			}
			sc.Actors = append(sc.Actors, act)
		}
		if rng.Intn(5) == 0 {
			// A redeploy that keeps its bindings takes a while (its target answers
			// the first probe slowly); meanwhile another operator removes the
			// service and gives the pair to a different one.
			a, b := names[0], names[1]
			hosts, paths := pickSome(rng, rtHostPool[:3], 1), dedupNorm(pickSome(rng, rtPathPool[:3], 1))
			slow := newTarget(a)
			sc.Targets[len(sc.Targets)-1].Phases = []Phase{{Kind: "slow", Delay: time.Duration(200+rng.Intn(400)) * time.Millisecond}}
			first := &sc.Actors[0]
			first.Ops = append(first.Ops,
				Op{Kind: "deploy", Service: a, Hosts: hosts, Paths: paths, Targets: newTarget(a), DeployTimeout: 2 * time.Second, DrainTimeout: 200 * time.Millisecond, Delay: 400 * time.Millisecond},
				Op{Kind: "deploy", Service: a, Hosts: hosts, Paths: paths, Targets: slow, DeployTimeout: 2 * time.Second, DrainTimeout: 200 * time.Millisecond, Delay: 50 * time.Millisecond, Tag: "slow-redeploy"})
			second := &sc.Actors[1]
			second.Ops = append(second.Ops,
				Op{Kind: "remove", Service: a, After: "tgt.probe:" + slow[0], AfterN: 1, Delay: 3 * time.Second},
				Op{Kind: "deploy", Service: b, Hosts: hosts, Paths: paths, Targets: newTarget(b), DeployTimeout: 2 * time.Second, DrainTimeout: 200 * time.Millisecond, Delay: 10 * time.Millisecond})
			totalCmds += 4
		}
		for c := 0; c < 1+rng.Intn(2); c++ {
			act := ActorSpec{Name: fmt.Sprintf("client%d", c)}
			for i := 0; i < 2+rng.Intn(4); i++ {
				o := mkRoute()
				o.Delay = time.Duration(rng.Intn(60)) * time.Millisecond
				if rng.Intn(3) == 0 {
					alignOp(rng, &o, []string{"router.install", "deploy.beforeInstall", "op.remove", "deploy.done"}, 5)
					o.Delay = 300 * time.Millisecond
				}
				act.Ops = append(act.Ops, o)
			}
			sc.Actors = append(sc.Actors, act)
		}
		// final sequential probes once every command has returned
		fin := ActorSpec{Name: "zfinal"}
		for i := 0; i < 6; i++ {
			o := mkRoute()
			if i == 0 {
				o.After, o.AfterN, o.Delay = "cmd.ret", totalCmds, 20*time.Second
			}
			fin.Ops = append(fin.Ops, o)
		}
		sc.Actors = append(sc.Actors, fin)
		return sc
	}
	// sequential history with interleaved route probes; the generator knows the
	// model state, so it can append the metamorphic tail
	model := rtModel{}
	act := ActorSpec{Name: "op"}
	n := 4 + rng.Intn(8)
	for i := 0; i < n; i++ {
		o := mkCmd()
		act.Ops = append(act.Ops, o)
		if o.Kind == "remove" {
			delete(model, o.Service)
		} else {
			b := rtBinding{Hosts: normHosts(o.Hosts), Paths: normPaths(o.Paths)}
			if !model.conflicts(o.Service, b) {
				model[o.Service] = b
			}
		}
		for j := 0; j < rng.Intn(3); j++ {
			act.Ops = append(act.Ops, mkRoute())
		}
	}
	// metamorphic tail: the same final set deployed in another order on router
	// P, and restored from A's state file on router B, must route identically
	svcs := sortedKeys(model)
	rng.Shuffle(len(svcs), func(i, j int) { svcs[i], svcs[j] = svcs[j], svcs[i] })
	for _, s := range svcs {
		b := model[s]
		hosts := b.Hosts
		if len(hosts) == 1 && hosts[0] == "" {
			hosts = nil
		}
		act.Ops = append(act.Ops, Op{Kind: "deploy", Router: "P", Service: s, Hosts: hosts, Paths: b.Paths, Targets: newTarget(s), DeployTimeout: 2 * time.Second, DrainTimeout: 200 * time.Millisecond, Tag: "perm"})
	}
	act.Ops = append(act.Ops, Op{Kind: "restore", Router: "B", From: "A", Tag: "perm"})
	act.Ops = append(act.Ops, Op{Kind: "observe", Router: "A", Tag: "final"}, Op{Kind: "observe", Router: "P", Tag: "final"}, Op{Kind: "observe", Router: "B", Tag: "final"})
	sc.Params["obs_repeat"] = 1
	sc.Params["rt_matrix"] = 1
	sc.Actors = append(sc.Actors, act)
	return sc
}

// ---- oracle ----------------------------------------------------------------

type rtInput struct {
	Kind  string
	Name  string
	B     rtBinding
	Host  string
	Path  string
	Label string
}

type rtOutput struct {
	Result string // deploy/remove: ok | conflict | notfound ; route: service name or "404"
}

func svcOfTarget(t string) string {
	if i := strings.Index(t, "-"); i > 0 {
		return t[:i]
	}
	return t
}

var rtPorcupineModel = porcupine.Model{
	Init: func() interface{} { return "" },
	Step: func(state, input, output interface{}) (bool, interface{}) {
		m := decodeModel(state.(string))
		in, out := input.(rtInput), output.(rtOutput)
		switch in.Kind {
		case "deploy":
			if m.conflicts(in.Name, in.B) {
				return out.Result == "conflict", state
			}
			if out.Result != "ok" {
				return false, state
			}
			m[in.Name] = in.B
			return true, m.encode()
		case "remove":
			if _, ok := m[in.Name]; !ok {
				return out.Result == "notfound", state
			}
			if out.Result != "ok" {
				return false, state
			}
			delete(m, in.Name)
			return true, m.encode()
		case "route":
			want := m.route(in.Host, in.Path)
			if want == "" {
				want = "404"
			}
			return out.Result == want, state
		}
		return false, state
	},
	DescribeOperation: func(input, output interface{}) string {
		in, out := input.(rtInput), output.(rtOutput)
		switch in.Kind {
		case "route":
			return fmt.Sprintf("route(%s%s)->%s", in.Host, in.Path, out.Result)
		case "remove":
			return fmt.Sprintf("remove(%s)->%s", in.Name, out.Result)
		}
		return fmt.Sprintf("deploy(%s hosts=%v paths=%v)->%s", in.Name, in.B.Hosts, in.B.Paths, out.Result)
	},
}

func checkRouting(r *RunResult) []Violation {
	var out []Violation
	w := r.W
	prop := r.Sc.Prop
	var ops []porcupine.Operation
	clients := map[string]int{}
	cid := func(a string) int {
		if _, ok := clients[a]; !ok {
			clients[a] = len(clients)
		}
		return clients[a]
	}
	type dep struct {
		c *CmdResult
		b rtBinding
	}
	var deps []dep
	lastBinding := map[string]string{}
	for _, c := range w.Cmds {
		if c.Op.Router != "" && c.Op.Router != "A" {
			if c.Err != nil && c.Op.Kind == "deploy" {
				out = append(out, Violation{Prop: prop, Clause: "final-set-not-deployable-in-other-order", Msg: fmt.Sprintf("deploying the final set of services in a different order failed for %s: %v", c.Op.Service, c.Err)})
			}
			continue
		}
		if c.Ret == 0 {
			continue
		}
		in := rtInput{Kind: c.Op.Kind, Name: c.Op.Service}
		res := "ok"
		switch c.Op.Kind {
		case "deploy":
			in.B = rtBinding{Hosts: normHosts(c.Op.Hosts), Paths: normPaths(c.Op.Paths)}
			switch {
			case c.Err == nil:
				enc := strings.Join(in.B.Hosts, ",") + "|" + strings.Join(in.B.Paths, ",")
				if prev, ok := lastBinding[c.Op.Service]; ok && prev != enc {
					r.Probes["bindings_moved"]++
				}
				lastBinding[c.Op.Service] = enc
			case strings.Contains(c.Err.Error(), "conflict"):
				res = "conflict"
				r.Probes["conflicts"]++
			default:
				out = append(out, Violation{Prop: prop, Clause: "unexpected-deploy-error", Msg: fmt.Sprintf("deploy %s returned %v", c.Op.Service, c.Err)})
				continue
			}
			deps = append(deps, dep{c, in.B})
		case "remove":
			if c.Err != nil {
				res = "notfound"
			}
		default:
			continue
		}
		ops = append(ops, porcupine.Operation{ClientId: cid(c.Actor), Input: in, Output: rtOutput{res}, Call: int64(c.Call), Return: int64(c.Ret)})
	}
	for i := range deps {
		for j := i + 1; j < len(deps); j++ {
			a, b := deps[i], deps[j]
			if a.c.Op.Service != b.c.Op.Service && a.c.Call < b.c.Ret && b.c.Call < a.c.Ret && (rtModel{a.c.Op.Service: a.b}).conflicts(b.c.Op.Service, b.b) {
				r.Probes["overlapping_deploys_on_common_pair"]++
			}
		}
	}
	for _, q := range w.Responses {
		if q.Ret == 0 || strings.HasPrefix(q.ReqID, "obs-") || (q.Op.Router != "" && q.Op.Router != "A") {
			continue
		}
		res := ""
		switch q.Status {
		case 200:
			res = svcOfTarget(q.ServedBy)
		case 404:
			res = "404"
		default:
			out = append(out, Violation{Prop: prop, Clause: "unexpected-status-for-routing-probe", Msg: fmt.Sprintf("routing probe %s %s%s got status %d", q.ReqID, q.Op.Host, q.Op.Path, q.Status)})
			continue
		}
		r.Probes["route_ops"]++
		p := q.Op.Path
		ops = append(ops, porcupine.Operation{ClientId: cid(q.Actor), Input: rtInput{Kind: "route", Host: q.Op.Host, Path: p}, Output: rtOutput{res}, Call: int64(q.Call), Return: int64(q.Ret)})
	}
	sort.Slice(ops, func(i, j int) bool { return ops[i].Call < ops[j].Call })
	if len(ops) > 0 {
		res, info := porcupine.CheckOperationsVerbose(rtPorcupineModel, ops, 30*time.Second)
		switch res {
		case porcupine.Illegal:
			out = append(out, Violation{Prop: prop, Clause: "history-not-linearizable", Msg: "the recorded history of deploy/remove/route operations has no linearization under the routing and ownership model: " + describeHistory(ops, info)})
		case porcupine.Unknown:
			r.Probes["porcupine_unknown"]++
		default:
			r.Probes["histories_linearizable"]++
		}
	}
	// metamorphic: same final set, other order / restored => same routing
	fa, fp, fb := w.ObsByTag("final", "A"), w.ObsByTag("final", "P"), w.ObsByTag("final", "B")
	if fa != nil && fp != nil && fb != nil {
		ma, mp, mb := svcMatrix(fa), svcMatrix(fp), svcMatrix(fb)
		for _, k := range sortedKeys(ma) {
			if ma[k] != mp[k] {
				out = append(out, Violation{Prop: prop, Clause: "routing-depends-on-command-order", Msg: fmt.Sprintf("%s is routed to %q on the router that lived through the history but to %q on a router where the same final set of services was deployed in another order", k, ma[k], mp[k])})
				break
			}
		}
		for _, k := range sortedKeys(ma) {
			if ma[k] != mb[k] {
				out = append(out, Violation{Prop: prop, Clause: "routing-changes-after-restart", Msg: fmt.Sprintf("%s is routed to %q before and to %q after restoring from the state file", k, ma[k], mb[k])})
				break
			}
		}
		r.Probes["metamorphic_matrices_compared"]++
	}
	return out
}

// svcMatrix maps an observation's probe matrix to service names.
func svcMatrix(o *Observation) map[string]string {
	out := map[string]string{}
	for k, v := range o.Matrix {
		parts := strings.SplitN(v, ":", 3)
		s := parts[0]
		if len(parts) > 1 && parts[1] != "" {
			names := map[string]bool{}
			for _, t := range strings.Split(parts[1], ",") {
				names[svcOfTarget(t)] = true
			}
			s += ":" + strings.Join(sortedKeys(names), ",")
		}
		out[k] = s
	}
	return out
}

func describeHistory(ops []porcupine.Operation, info porcupine.LinearizationInfo) string {
	var b strings.Builder
	for i, o := range ops {
		if i >= 40 {
			b.WriteString(" ...")
			break
		}
		fmt.Fprintf(&b, " [%d..%d c%d %s]", o.Call, o.Return, o.ClientId, rtPorcupineModel.DescribeOperation(o.Input, o.Output))
	}
	return b.String()
}
