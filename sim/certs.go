package sim

import (
	"crypto/ecdsa"
	"crypto/elliptic"
	"crypto/rand"
	"crypto/x509"
	"crypto/x509/pkix"
	"encoding/pem"
	"math/big"
	"os"
	"path/filepath"
	"sync"
	"time"
)

var (
	certOnce        sync.Once
	certPEM, keyPEM []byte
)

func makeCert() {
	key, _ := ecdsa.GenerateKey(elliptic.P256(), rand.Reader)
	tmpl := &x509.Certificate{
		SerialNumber: big.NewInt(1),
		Subject:      pkix.Name{CommonName: "static.test"},
		NotBefore:    time.Unix(0, 0),
		NotAfter:     time.Date(2100, 1, 1, 0, 0, 0, 0, time.UTC),
		DNSNames:     []string{"static.test"},
	}
	der, _ := x509.CreateCertificate(rand.Reader, tmpl, tmpl, &key.PublicKey, key)
	kb, _ := x509.MarshalECPrivateKey(key)
	certPEM = pem.EncodeToMemory(&pem.Block{Type: "CERTIFICATE", Bytes: der})
	keyPEM = pem.EncodeToMemory(&pem.Block{Type: "EC PRIVATE KEY", Bytes: kb})
}

// certFiles writes a (process-wide) self-signed key pair into the world's
// directory and returns the two paths.
func (w *World) certFiles() (string, string) {
	certOnce.Do(makeCert)
	c, k := filepath.Join(w.Dir, "cert.pem"), filepath.Join(w.Dir, "key.pem")
	if _, err := os.Stat(c); err != nil {
		os.WriteFile(c, certPEM, 0o644)
		os.WriteFile(k, keyPEM, 0o600)
	}
	return c, k
}
