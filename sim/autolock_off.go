//go:build !autoyield

package sim

const AutoYield = false

func installAutoHooks(s *Sim) {}
