package sim

import (
	"fmt"
	"math/rand"
	"strings"
	"time"
)

// C11 — a restart changes nothing observable. Differential: router A lives
// through a history; at a command boundary its state file is copied and router
// B is restored from it; the rest of the history is applied to both.

func init() {
	Register(&Prop{
		ID:    "C11",
		Gen:   genC11,
		Check: checkC11,
		Nontrivial: func(r *RunResult) bool {
			return r.Probes["restart_with_pause_or_rollout_state"] > 0
		},
	})
}

func genC11(seed int64, tier string) *Scenario {
	rng := rand.New(rand.NewSource(seed))
	sc := &Scenario{Prop: "C11", Seed: seed, Params: map[string]int{"obs_cookie": 1, "obs_repeat": 3, "obs_certs": 1}}
	sc.Sched = genSched(rng, tier, false)
	sc.Sched.MaxSteps = 80000
	sc.HC = HCKnobs{Interval: 2 * time.Second, Timeout: 300 * time.Millisecond, TargetTimeout: 2 * time.Second}
	if rng.Intn(2) == 0 {
		sc.Pages = map[string]string{"503.html": "<html>CUSTOM503[[{{.Message}}]]END</html>"}
	}
	op := ActorSpec{Name: "op"}
	tn := 0
	targets := func(n int) []string {
		var out []string
		for j := 0; j < n; j++ {
			tn++
			addr := fmt.Sprintf("t%d:80", tn)
			sc.Targets = append(sc.Targets, TargetSpec{Addr: addr})
			out = append(out, addr)
		}
		return out
	}
	type svcDef struct {
		hosts, paths []string
	}
	defs := map[string]svcDef{
		"web": {nil, nil},
		"api": {[]string{"api.test", "api2.test"}, []string{"/api", "/v2"}},
		"tls": {[]string{"secure.test"}, nil},
		"sub": {[]string{"secure.test"}, []string{"/sub"}},
		"wld": {[]string{"*.wild.test"}, nil},
	}
	names := []string{"web", "api", "tls", "sub", "wld"}
	deployed := map[string]bool{}
	hasRollout := map[string]bool{}
	mkDeploy := func(name string) Op {
		d := defs[name]
		o := Op{Kind: "deploy", Service: name, Hosts: d.hosts, Paths: d.paths, Targets: targets(1 + rng.Intn(2)), DeployTimeout: 2 * time.Second, DrainTimeout: 200 * time.Millisecond}
		svc := &SvcOpts{}
		if name == "tls" {
			svc.TLS, svc.StaticCert, svc.TLSRedirect = true, "good", rng.Intn(2) == 0
		}
		if name == "api" || name == "sub" {
			svc.StripPrefix = rng.Intn(2) == 0
		}
		if sc.Pages != nil && rng.Intn(2) == 0 {
			svc.ErrorPages = "good"
		}
		o.Svc = svc
		if rng.Intn(2) == 0 {
			o.Tgt = &TgtOpts{BufferRequests: rng.Intn(2) == 0, BufferResponses: rng.Intn(2) == 0, MaxReq: int64(pick(rng, 0, 1000)), MaxResp: int64(pick(rng, 0, 5000)), MaxMem: int64(pick(rng, 0, 64)),
				ResponseTimeout: time.Duration(pick(rng, 1, 3)) * time.Second, ForwardHeaders: rng.Intn(2) == 0, HCInterval: time.Duration(pick(rng, 1, 3)) * time.Second, HCPath: pick(rng, "", "/health")}
		}
		deployed[name] = true
		return o
	}
	mkCmd := func() Op {
		var ds []string
		for _, n := range names {
			if deployed[n] {
				ds = append(ds, n)
			}
		}
		if len(ds) == 0 || rng.Intn(6) == 0 {
			return mkDeploy(names[rng.Intn(len(names))])
		}
		name := ds[rng.Intn(len(ds))]
		switch rng.Intn(10) {
		case 0:
			return mkDeploy(name)
		case 1, 2:
			hasRollout[name] = true
			return Op{Kind: "rollout_deploy", Service: name, Targets: targets(1), DeployTimeout: 2 * time.Second, DrainTimeout: 200 * time.Millisecond}
		case 3, 4:
			return Op{Kind: "rollout_set", Service: name, Percent: pick(rng, 0, 30, 100), Allow: pick(rng, nil, []string{"vip"})}
		case 5:
			return Op{Kind: "rollout_stop", Service: name}
		case 6:
			return Op{Kind: "pause", Service: name, DrainTimeout: 200 * time.Millisecond, PauseTimeout: time.Duration(pick(rng, 100, 250)) * time.Millisecond}
		case 7:
			return Op{Kind: "stop", Service: name, DrainTimeout: 200 * time.Millisecond, Message: pick(rng, "", "down for <maintenance>", "back at 5")}
		case 8:
			return Op{Kind: "resume", Service: name}
		default:
			if rng.Intn(2) == 0 {
				deployed[name] = false
				hasRollout[name] = false
				return Op{Kind: "remove", Service: name}
			}
			return Op{Kind: "resume", Service: name}
		}
	}
	op.Ops = append(op.Ops, mkDeploy("web"))
	nPrefix := rng.Intn(9)
	for i := 0; i < nPrefix; i++ {
		op.Ops = append(op.Ops, mkCmd())
	}
	if rng.Intn(4) == 0 {
		// Some targets fail their probes for a while before the restart, a
		// command rewrites the state file meanwhile, and they recover before it:
		// the file the restart reads was written while they were out of rotation.
		var all []string
		for _, t := range sc.Targets {
			if rng.Intn(2) == 0 {
				all = append(all, t.Addr)
			}
		}
		wait := 2*3*time.Second + time.Second // two of the longest probe intervals in this world and a timeout
		op.Ops = append(op.Ops, Op{Kind: "probe_mode", Targets: all, Sim: pick(rng, "status=500", "refuse", "hang")}, Op{Kind: "sleep", Delay: wait})
		for i := 0; i < rng.Intn(3); i++ {
			op.Ops = append(op.Ops, mkCmd())
		}
		op.Ops = append(op.Ops, Op{Kind: "rollout_stop", Service: "web"})
		op.Ops = append(op.Ops, Op{Kind: "probe_mode", Targets: all, Sim: ""}, Op{Kind: "sleep", Delay: wait})
	}
	op.Ops = append(op.Ops, Op{Kind: "restore", Router: "B", From: "A", Tag: "restart"})
	op.Ops = append(op.Ops, Op{Kind: "observe", Router: "A", Tag: "r0"}, Op{Kind: "observe", Router: "B", Tag: "r0"})
	nSuffix := 1 + rng.Intn(6)
	for i := 0; i < nSuffix; i++ {
		c := mkCmd()
		c.Tag = fmt.Sprintf("suffix%d", i)
		cb := c
		cb.Router = "B"
		op.Ops = append(op.Ops, c, cb)
	}
	// make sure both routers rewrite their state file at least once more
	fin := Op{Kind: "rollout_stop", Service: "web", Tag: "suffix-final"}
	finb := fin
	finb.Router = "B"
	op.Ops = append(op.Ops, fin, finb)
	op.Ops = append(op.Ops, Op{Kind: "observe", Router: "A", Tag: "r1"}, Op{Kind: "observe", Router: "B", Tag: "r1"})
	sc.Actors = append(sc.Actors, op)
	return sc
}

func errClass(c *CmdResult) string {
	switch {
	case c.Panic != "":
		return "PANIC"
	case c.Err == nil:
		return "ok"
	}
	e := c.Err.Error()
	if i := strings.Index(e, " ("); i > 0 { // strip "(30s)" style details
		e = e[:i]
	}
	return e
}

func checkC11(r *RunResult) []Violation {
	var out []Violation
	w := r.W
	// state at the restart
	model := cfgModel{}
	var restart *CmdResult
	for _, c := range w.Cmds {
		if c.Op.Kind == "restore" {
			restart = c
			break
		}
		if c.Ret != 0 && c.Err == nil && (c.Op.Router == "" || c.Op.Router == "A") {
			model.apply(c.Op)
		}
	}
	if restart == nil || restart.Ret == 0 {
		return out
	}
	for _, s := range model {
		if s.Pause != 0 || len(s.Rollout) > 0 || s.HasSplit {
			r.Probes["restart_with_pause_or_rollout_state"]++
			break
		}
	}
	if restart.Err != nil || restart.Panic != "" {
		out = append(out, Violation{Prop: "C11", Clause: "restore-failed", Msg: fmt.Sprintf("restoring from the state file written after %d commands failed: %v %s", len(model), restart.Err, restart.Panic)})
		return out
	}
	// command results of the suffix, pairwise
	byTag := map[string][]*CmdResult{}
	for _, c := range w.Cmds {
		if strings.HasPrefix(c.Op.Tag, "suffix") {
			byTag[c.Op.Tag] = append(byTag[c.Op.Tag], c)
		}
	}
	for _, tag := range sortedKeys(byTag) {
		p := byTag[tag]
		if len(p) != 2 || p[0].Ret == 0 || p[1].Ret == 0 {
			continue
		}
		a, b := p[0], p[1]
		if a.Op.Router == "B" {
			a, b = b, a
		}
		if errClass(a) != errClass(b) {
			out = append(out, Violation{Prop: "C11", Clause: "command-result-differs-after-restart", Sig: a.Op.Kind,
				Msg: fmt.Sprintf("%s %s returned %q on the original proxy but %q on the restored one", a.Op.Kind, a.Op.Service, errClass(a), errClass(b))})
		}
	}
	for _, tag := range []string{"r0", "r1"} {
		oa, ob := w.ObsByTag(tag, "A"), w.ObsByTag(tag, "B")
		if oa == nil || ob == nil {
			continue
		}
		when := map[string]string{"r0": "right after the restart", "r1": "after the rest of the history was applied to both"}[tag]
		if d := DiffObs(oa, ob, false); len(d) > 0 {
			out = append(out, Violation{Prop: "C11", Clause: "observable-difference-after-restart", Sig: tag,
				Msg: fmt.Sprintf("%s the original and the restored proxy differ: %s", when, trunc(strings.Join(d, "; "), 700))})
		}
		if tag == "r1" && oa.StErr == "" && ob.StErr == "" {
			// same saved configuration, including every option
			ca, cb := canonAll(oa.State), canonAll(ob.State)
			for _, k := range sortedKeys(ca) {
				if ca[k] != cb[k] {
					out = append(out, Violation{Prop: "C11", Clause: "saved-state-differs-after-restart", Msg: fmt.Sprintf("service %s is saved as %s by the original and as %s by the restored proxy", k, ca[k], cb[k])})
					break
				}
			}
			for i := range oa.State {
				if i < len(ob.State) && oa.State[i].Name == ob.State[i].Name {
					if oa.State[i].TOpts != ob.State[i].TOpts || oa.State[i].Opts != ob.State[i].Opts {
						out = append(out, Violation{Prop: "C11", Clause: "saved-options-differ-after-restart", Msg: fmt.Sprintf("service %s: options %s / %s vs %s / %s", oa.State[i].Name, oa.State[i].Opts, oa.State[i].TOpts, ob.State[i].Opts, ob.State[i].TOpts)})
						break
					}
				}
			}
		}
	}
	return out
}
