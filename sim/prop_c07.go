package sim

import (
	"fmt"
	"html"
	"math/rand"
	"strings"
	"time"
)

// C07 — a paused service holds requests and releases them intact.
// C08 shares the epoch model (see prop_c08.go).

func init() {
	Register(&Prop{
		ID:    "C07",
		Gen:   genC07,
		Check: checkC07,
		Nontrivial: func(r *RunResult) bool {
			return r.Probes["held_requests"] > 0
		},
	})
}

// ---- epoch model -----------------------------------------------------------
// With a single operator the commands are sequential. Between the return of one
// command and the call of the next the service is in a definite (state,
// generation); while a command runs it may be in the state before or after it.

type svcState struct {
	kind     string // running | paused | stopped | absent
	maxPause time.Duration
	msg      string
	gen      map[string]bool // active targets
	rollout  map[string]bool
}

type epoch struct {
	from, to   int           // event seq range [from, to]
	fromT, toT time.Duration // virtual time range
	states     []svcState    // one (stable) or two (transition)
	cmd        *CmdResult    // the command of a transition epoch
	stable     bool
}

func setOf(xs []string) map[string]bool {
	m := map[string]bool{}
	for _, x := range xs {
		m[x] = true
	}
	return m
}

// buildEpochs replays the (sequential) command history of one service on a
// three-line model of the pause state machine.
func buildEpochs(r *RunResult, service string) []epoch {
	cur := svcState{kind: "absent"}
	var eps []epoch
	lastSeq, lastT := 0, time.Duration(0)
	end := r.H.Len() + 1
	for _, c := range r.W.Cmds {
		if c.Op.Service != service && c.Op.Kind != "list" {
			continue
		}
		if c.Op.Router != "" && c.Op.Router != "A" {
			continue
		}
		next := cur
		ok := c.Err == nil && c.Ret != 0
		switch c.Op.Kind {
		case "deploy":
			if ok {
				next.gen = setOf(c.Op.Targets)
				if cur.kind == "absent" {
					next.kind = "running"
				}
			}
		case "rollout_deploy":
			if ok {
				next.rollout = setOf(c.Op.Targets)
			}
		case "pause":
			if ok {
				next.kind, next.maxPause, next.msg = "paused", c.Op.PauseTimeout, ""
			}
		case "stop":
			if ok {
				next.kind, next.msg = "stopped", c.Op.Message
			}
		case "resume":
			if ok {
				next.kind, next.msg = "running", ""
			}
		case "remove":
			if ok {
				next = svcState{kind: "absent"}
			}
		}
		eps = append(eps, epoch{from: lastSeq, to: c.Call, fromT: lastT, toT: c.CallT, states: []svcState{cur}, stable: true})
		if c.Ret == 0 {
			eps = append(eps, epoch{from: c.Call, to: end, fromT: c.CallT, toT: r.Virtual, states: []svcState{cur, next}, cmd: c})
			return eps
		}
		eps = append(eps, epoch{from: c.Call, to: c.Ret, fromT: c.CallT, toT: c.RetT, states: []svcState{cur, next}, cmd: c})
		cur, lastSeq, lastT = next, c.Ret, c.RetT
	}
	eps = append(eps, epoch{from: lastSeq, to: end, fromT: lastT, toT: r.Virtual, states: []svcState{cur}, stable: true})
	return eps
}

func overlapping(eps []epoch, from, to int) []epoch {
	var out []epoch
	for _, e := range eps {
		if e.to >= from && e.from <= to {
			out = append(out, e)
		}
	}
	return out
}

func epochAt(eps []epoch, seq int) []epoch { return overlapping(eps, seq, seq) }

func anyState(eps []epoch, f func(s svcState) bool) bool {
	for _, e := range eps {
		for _, s := range e.states {
			if f(s) {
				return true
			}
		}
	}
	return false
}

// ---- generator -------------------------------------------------------------

var pauseTriggers = []string{"op.pause", "op.stop", "op.resume", "op.deploy", "cmd.found", "service.beforeDrain", "drain.begin", "drain.marked", "drain.end",
	"router.install", "deploy.healthy", "deploy.beforeDrain", "snapshot.begin"}

func genPauseWorld(rng *rand.Rand, sc *Scenario, messages []string, errorPages string) {
	interval := time.Duration(pick(rng, 300, 1000)) * time.Millisecond
	sc.HC = HCKnobs{Interval: interval, Timeout: 200 * time.Millisecond, TargetTimeout: 5 * time.Second}
	op := ActorSpec{Name: "op"}
	gen := 0
	mk := func() []string {
		n := 1 + rng.Intn(2)
		var names []string
		for j := 0; j < n; j++ {
			addr := fmt.Sprintf("g%dt%d:80", gen, j)
			names = append(names, addr)
			sc.Targets = append(sc.Targets, TargetSpec{Addr: addr})
		}
		gen++
		return names
	}
	var svc *SvcOpts
	if errorPages != "" {
		svc = &SvcOpts{ErrorPages: errorPages}
	}
	// a third of the worlds: the service lives under a path prefix (stripped or
	// not), so that "<prefix>/up" is an ordinary path and not the health check
	var paths []string
	if rng.Intn(3) == 0 {
		paths = []string{"/app"}
		if svc == nil {
			svc = &SvcOpts{}
		}
		svc.StripPrefix = rng.Intn(3) != 0
	}
	first := mk()
	op.Ops = append(op.Ops, Op{Kind: "deploy", Service: "web", Paths: paths, Targets: first, DeployTimeout: 5 * time.Second, DrainTimeout: time.Second, Svc: svc})
	n := 3 + rng.Intn(5)
	state := "running"
	var flapD time.Duration
	flapPointsOn := true
	for _, d := range sc.Sched.Disabled {
		if d == "drain.marked" || d == "drain.cancel" || d == "drain.end" {
			flapPointsOn = false
		}
	}
	if time.Duration(sc.Sched.StallMax)*sc.Sched.StallDelta > 80*time.Millisecond {
		flapPointsOn = false // CPU stalls could move a probe across the end of the drain
	}
	if len(first) == 1 && flapPointsOn && rng.Intn(3) == 0 {
		// the (only) target fails its probes for as long as a pause is draining it
		// (a slow request keeps the drain going) and answers them again from the
		// moment the drain is over: it is never out of rotation, so after the
		// resume everything is forwarded as usual
		// (the slow request, sent at 240 ms, ends at least 100 ms away from every
		// probe tick - probes come every 300 ms - so that no probe is in flight
		// when the drain ends)
		for {
			flapD = time.Duration(700+rng.Intn(300)) * time.Millisecond
			if ph := (240*time.Millisecond + flapD) % (300 * time.Millisecond); ph >= 100*time.Millisecond && ph <= 200*time.Millisecond {
				break
			}
		}
		sc.HC.Interval = 300 * time.Millisecond
		op.Ops = append(op.Ops,
			Op{Kind: "pause", Service: "web", DrainTimeout: flapD + 400*time.Millisecond, PauseTimeout: 3 * time.Second, Delay: 300 * time.Millisecond},
			Op{Kind: "resume", Service: "web", Delay: 200 * time.Millisecond})
		sc.Actors = append(sc.Actors, ActorSpec{Name: "zflap", Ops: []Op{
			{Kind: "probe_mode", Targets: first, Sim: pick(rng, "status=500", "refuse"), After: "drain.marked", AfterN: 1, Delay: 5 * time.Second, Strict: true},
			{Kind: "probe_mode", Targets: first, Sim: "", After: "drain.cancel", AfterN: 1, Delay: 5 * time.Second}}})
		// the drain does not restore the target's state before the probes are
		// answered again: no probe can fail while the target is back in service
		sc.TaskHolds = append(sc.TaskHolds, TaskHold{Task: "drain:" + first[0], Hold: Hold{At: "drain.end", For: "op.probe_mode", N: 1, Max: time.Second}})
	}
	for i := 0; i < n; i++ {
		d := time.Duration(100+rng.Intn(1400)) * time.Millisecond
		var o Op
		switch rng.Intn(8) {
		case 0, 1, 2:
			o = Op{Kind: "pause", Service: "web", DrainTimeout: time.Second, PauseTimeout: time.Duration(pick(rng, 300, 700, 1200, 2500)) * time.Millisecond}
			state = "paused"
		case 3, 4:
			if state == "running" && rng.Intn(2) == 0 {
				o = Op{Kind: "pause", Service: "web", DrainTimeout: time.Second, PauseTimeout: time.Duration(pick(rng, 300, 700, 1200)) * time.Millisecond}
				state = "paused"
			} else {
				o = Op{Kind: "resume", Service: "web"}
				state = "running"
			}
		case 5:
			o = Op{Kind: "stop", Service: "web", DrainTimeout: time.Second, Message: messages[rng.Intn(len(messages))]}
			state = "stopped"
		case 6:
			o = Op{Kind: "deploy", Service: "web", Paths: paths, Targets: mk(), DeployTimeout: 5 * time.Second, DrainTimeout: time.Second, Svc: svc}
		default:
			o = Op{Kind: "resume", Service: "web"}
			state = "running"
		}
		o.Delay = d
		op.Ops = append(op.Ops, o)
	}
	op.Ops = append(op.Ops, Op{Kind: "resume", Service: "web", Delay: 3 * time.Second})
	op.Ops = append(op.Ops, Op{Kind: "sleep", Delay: 200 * time.Millisecond})
	sc.Actors = append(sc.Actors, op)
	total := time.Duration(n) * 800 * time.Millisecond
	nc := 3 + rng.Intn(6)
	for c := 0; c < nc; c++ {
		a := ActorSpec{Name: fmt.Sprintf("client%d", c)}
		nr := 1 + rng.Intn(4)
		for i := 0; i < nr; i++ {
			o := Op{Kind: "request", Path: "/x"}
			switch rng.Intn(8) {
			case 0:
				o.Path = "/up"
			case 1:
				o.Path, o.Method = "/up", "POST"
			case 2:
				o.Path = "/up?x=1"
			case 3:
				o.Path = "/upx"
			}
			switch rng.Intn(3) {
			case 0:
				alignOp(rng, &o, pauseTriggers, 4)
			default:
				o.Delay = time.Duration(rng.Intn(int(total/time.Millisecond)/nr+1)) * time.Millisecond
			}
			if rng.Intn(4) == 0 {
				holdOp(rng, &o, []string{"cmd.found", "service.beforeDrain", "drain.begin", "drain.marked", "drain.end", "cmd.ret", "op.resume", "router.install"})
			}
			o.Sim = simDirective(time.Duration(rng.Intn(3))*15*time.Millisecond, 0, "")
			if flapD > 0 && c == 0 && i == 0 {
				o = Op{Kind: "request", Path: "/x", Delay: 240 * time.Millisecond, Sim: simDirective(flapD, 0, "")}
			}
			if len(paths) > 0 {
				o.Path = paths[0] + o.Path
			}
			a.Ops = append(a.Ops, o)
		}
		sc.Actors = append(sc.Actors, a)
	}
}

func genC07(seed int64, tier string) *Scenario {
	rng := rand.New(rand.NewSource(seed))
	sc := &Scenario{Prop: "C07", Seed: seed}
	sc.Sched = genSched(rng, tier, rng.Intn(2) == 0)
	sc.Sched.MaxSteps = 15000
	genPauseWorld(rng, sc, []string{"", "back soon", "maintenance <b>now</b>"}, "")
	return sc
}

// ---- oracle ----------------------------------------------------------------

func isHealthGET(op *Op) bool {
	m := op.Method
	if m == "" {
		m = "GET"
	}
	p := op.Path
	if i := strings.Index(p, "?"); i >= 0 {
		p = p[:i]
	}
	return m == "GET" && p == "/up"
}

// firstSend returns the first event at which the proxy put request rid on the
// wire to a target (0 if never).
func firstSend(r *RunResult, rid string) *Event {
	for i := range r.H.Events {
		e := &r.H.Events[i]
		if e.Kind == "net.write" && e.Req == rid {
			return e
		}
	}
	return nil
}

func checkC07(r *RunResult) []Violation { return checkPauseWorld(r, "C07") }

func checkPauseWorld(r *RunResult, prop string) []Violation {
	var out []Violation
	w := r.W
	z := slack(r.Sc)
	eps := buildEpochs(r, "web")
	add := func(clause, msg string) { out = append(out, Violation{Prop: prop, Clause: clause, Msg: msg}) }
	for _, q := range w.Responses {
		if q.Ret == 0 {
			if r.Budget == "" {
				add("request-never-answered", fmt.Sprintf("request %s invoked at #%d (t=%v) was never answered", q.ReqID, q.Call, q.CallT))
			}
			continue
		}
		ov := overlapping(eps, q.Call, q.Ret)
		if anyState(ov, func(s svcState) bool { return s.kind == "absent" }) {
			continue // before the first deploy returned: outside the property
		}
		send := firstSend(r, q.ReqID)
		health := isHealthGET(q.Op)
		// (1) forwarding is only possible while the service may be running,
		// and only to targets it may have at that moment
		if send != nil {
			at := epochAt(eps, send.Seq)
			if !anyState(at, func(s svcState) bool { return s.kind == "running" }) {
				add("forwarded-while-not-running", fmt.Sprintf("request %s was forwarded to %s at #%d (t=%v) although the service was %s then", q.ReqID, send.Target, send.Seq, send.T, at[0].states[0].kind))
			} else if !anyState(at, func(s svcState) bool { return s.gen[send.Target] || s.rollout[send.Target] }) {
				add("forwarded-to-wrong-generation", fmt.Sprintf("request %s was forwarded at #%d to %s, which is not a target of the service at that moment", q.ReqID, send.Seq, send.Target))
			}
		}
		switch {
		case strings.HasPrefix(q.Err, "PANIC"):
			add("panic", q.Err)
		case q.Status == 200 && send != nil:
			if q.ServedBy != send.Target || !strings.HasPrefix(string(q.Body), q.ServedBy+"|"+q.ReqID+"|") {
				add("response-not-intact", fmt.Sprintf("request %s was forwarded to %s but the client got a body from %q: %q", q.ReqID, send.Target, q.ServedBy, trunc(string(q.Body), 40)))
			}
		case q.Status == 200 && send == nil:
			// the proxy's own 200: only for health-check GETs while possibly paused/stopped
			if !health || !anyState(ov, func(s svcState) bool { return s.kind != "running" }) {
				add("unexpected-200-from-proxy", fmt.Sprintf("request %s (%s %s) got a 200 that no target produced", q.ReqID, q.Op.Method, q.Op.Path))
			} else if len(q.Body) != 0 {
				add("health-200-with-body", fmt.Sprintf("health-check request %s got a 200 with a body of %d bytes", q.ReqID, len(q.Body)))
			}
		case q.Status == 503:
			okStop := false
			for _, e := range ov {
				for _, s := range e.states {
					if s.kind == "stopped" && stopBodyMatches(string(q.Body), s.msg) {
						okStop = true
					}
				}
			}
			if !okStop {
				if anyState(ov, func(s svcState) bool { return s.kind == "stopped" }) {
					add("503-with-wrong-message", fmt.Sprintf("request %s got a 503 whose page does not carry the stop message in force: %q", q.ReqID, trunc(bodyText(string(q.Body)), 80)))
				} else {
					add("refused-without-stop", fmt.Sprintf("request %s (#%d..#%d) got 503 although the service was never stopped during the request", q.ReqID, q.Call, q.Ret))
				}
			}
			if health && !anyState(ov, func(s svcState) bool { return s.kind == "running" }) {
				add("health-check-not-200", fmt.Sprintf("health-check request %s got 503 while the service was stopped", q.ReqID))
			}
		case q.Status == 504:
			held := q.RetT - q.CallT
			okPause := anyState(ov, func(s svcState) bool { return s.kind == "paused" && held >= s.maxPause-z })
			cut := false // cut off by a drain deadline (C03): in flight or claimed when a drain expired
			for _, e := range ov {
				if e.cmd != nil && (e.cmd.Op.Kind == "pause" || e.cmd.Op.Kind == "stop" || e.cmd.Op.Kind == "deploy") && q.RetT >= e.cmd.CallT+e.cmd.Op.DrainTimeout-z {
					cut = true
				}
			}
			if !okPause && !cut {
				add("504-without-expired-pause", fmt.Sprintf("request %s got 504 after %v although no pause with a max-pause that short was in force", q.ReqID, held))
			}
		default:
			add("unexpected-status", fmt.Sprintf("request %s got status %d", q.ReqID, q.Status))
		}
		// (2) timing clauses: request invoked in a stable paused/stopped epoch, not
		// subject to a hold, in a run without CPU stalls
		if len(ov) == 0 || !ov[0].stable || len(ov[0].states) != 1 {
			continue
		}
		st := ov[0].states[0]
		if st.kind == "paused" || st.kind == "stopped" {
			r.Probes["held_requests"]++
		}
		exact := q.Op.Hold == nil && r.Sc.Sched.StallMax == 0
		if health && (st.kind == "paused" || st.kind == "stopped") && len(ov) == 1 {
			if q.Status != 200 || send != nil {
				add("health-check-not-200", fmt.Sprintf("health-check request %s during %s got status %d (forwarded: %v)", q.ReqID, st.kind, q.Status, send != nil))
			} else if exact && q.RetT-q.CallT > z {
				add("health-check-delayed", fmt.Sprintf("health-check request %s during %s was answered after %v", q.ReqID, st.kind, q.RetT-q.CallT))
			}
			continue
		}
		if health || !exact {
			continue
		}
		switch st.kind {
		case "stopped":
			if len(ov) == 1 && (q.Status != 503 || q.RetT-q.CallT > z) {
				add("stopped-not-503-at-once", fmt.Sprintf("request %s arrived while stopped and got status %d after %v", q.ReqID, q.Status, q.RetT-q.CallT))
			}
		case "paused":
			// how does the paused epoch end?
			endT, endKind := ov[0].toT, ""
			var endCmd *CmdResult
			for _, e := range eps {
				if e.from == ov[0].to && e.cmd != nil {
					endKind, endCmd = e.cmd.Op.Kind, e.cmd
				}
			}
			expire := q.CallT + st.maxPause
			switch {
			case endKind == "" || expire < endT-z:
				if q.Status != 504 || q.RetT < expire-z || q.RetT > expire+z {
					add("held-request-not-504-at-max-pause", fmt.Sprintf("request %s arrived at t=%v while paused (max-pause %v) and nothing released it; it got status %d at t=%v", q.ReqID, q.CallT, st.maxPause, q.Status, q.RetT))
				} else {
					r.Probes["held_until_504"]++
				}
			case endKind == "resume" && expire > endCmd.RetT+z:
				if q.Status != 200 || send == nil || send.T > endCmd.RetT+z || send.Seq < endCmd.Call {
					add("held-request-not-released-by-resume", fmt.Sprintf("request %s was held when resume was called at t=%v; it got status %d, forwarded=%v", q.ReqID, endCmd.CallT, q.Status, send != nil))
				} else {
					r.Probes["released_by_resume"]++
				}
			case endKind == "stop" && expire > endCmd.RetT+z:
				if q.Status != 503 || q.RetT > endCmd.RetT+z {
					add("held-request-not-503-on-stop", fmt.Sprintf("request %s was held when stop was called at t=%v; it got status %d at t=%v", q.ReqID, endCmd.CallT, q.Status, q.RetT))
				} else {
					r.Probes["released_by_stop"]++
				}
			}
		}
	}
	return out
}

// bodyText strips tags crudely, for messages only.
func bodyText(b string) string {
	if i := strings.Index(b, "<article"); i >= 0 {
		b = b[i:]
	}
	return b
}

// stopBodyMatches: the page must contain the HTML-escaped message (or, for an
// empty message, the default text of the built-in page or nothing special).
func stopBodyMatches(body, msg string) bool {
	if msg == "" {
		return true
	}
	return strings.Contains(body, html.EscapeString(msg)) || strings.Contains(html.UnescapeString(body), msg)
}
