package sim

import (
	"fmt"
	"math/rand"
	"strings"
	"time"
)

// C06 — a command that fails changes nothing and leaves nothing running.

func init() {
	Register(&Prop{
		ID:    "C06",
		Gen:   genC06,
		Check: checkC06,
		Nontrivial: func(r *RunResult) bool {
			return r.Probes["failed_as_expected"] > 0 && (r.Probes["late_failure"] > 0 || r.Probes["prefix_has_pause_or_rollout"] > 0)
		},
	})
}

// genConfigPrefix appends a random history of successful commands over two or
// three services to the operator and returns the names of deployed services and
// whether pause/rollout state exists.
type cfgInfo struct {
	services   map[string]bool
	hasRollout map[string]bool
	paused     map[string]bool
	gen        int
}

func (ci *cfgInfo) newTargets(sc *Scenario, rng *rand.Rand, n int) []string {
	var names []string
	for j := 0; j < n; j++ {
		addr := fmt.Sprintf("c%dt%d:80", ci.gen, j)
		names = append(names, addr)
		sc.Targets = append(sc.Targets, TargetSpec{Addr: addr})
	}
	ci.gen++
	return names
}

var cfgBindings = map[string]Op{
	"web": {Hosts: nil, Paths: nil},
	"api": {Hosts: []string{"api.test"}, Paths: []string{"/api", "/v2"}},
	"adm": {Hosts: []string{"adm.test", "*.wild.test"}, Paths: nil},
}

func genConfigPrefix(rng *rand.Rand, sc *Scenario, op *ActorSpec, steps int) *cfgInfo {
	ci := &cfgInfo{services: map[string]bool{}, hasRollout: map[string]bool{}, paused: map[string]bool{}}
	deploy := func(name string) {
		b := cfgBindings[name]
		op.Ops = append(op.Ops, Op{Kind: "deploy", Service: name, Hosts: b.Hosts, Paths: b.Paths, Targets: ci.newTargets(sc, rng, 1+rng.Intn(2)), DeployTimeout: 3 * time.Second, DrainTimeout: 500 * time.Millisecond})
		ci.services[name] = true
	}
	deploy("web")
	if rng.Intn(2) == 0 {
		deploy("api")
	}
	if rng.Intn(3) == 0 {
		deploy("adm")
	}
	for i := 0; i < steps; i++ {
		names := sortedKeys(ci.services)
		name := names[rng.Intn(len(names))]
		switch rng.Intn(8) {
		case 0:
			deploy(name)
		case 1, 2:
			op.Ops = append(op.Ops, Op{Kind: "rollout_deploy", Service: name, Targets: ci.newTargets(sc, rng, 1), DeployTimeout: 3 * time.Second, DrainTimeout: 500 * time.Millisecond})
			ci.hasRollout[name] = true
		case 3:
			if ci.hasRollout[name] {
				op.Ops = append(op.Ops, Op{Kind: "rollout_set", Service: name, Percent: pick(rng, 0, 50, 100), Allow: []string{"vip"}})
			}
		case 4:
			if ci.hasRollout[name] {
				op.Ops = append(op.Ops, Op{Kind: "rollout_stop", Service: name})
			}
		case 5:
			op.Ops = append(op.Ops, Op{Kind: "pause", Service: name, DrainTimeout: 300 * time.Millisecond, PauseTimeout: 150 * time.Millisecond})
			ci.paused[name] = true
		case 6:
			op.Ops = append(op.Ops, Op{Kind: "stop", Service: name, DrainTimeout: 300 * time.Millisecond, Message: "down " + name})
			ci.paused[name] = true
		case 7:
			op.Ops = append(op.Ops, Op{Kind: "resume", Service: name})
			delete(ci.paused, name)
		}
	}
	return ci
}

func genC06(seed int64, tier string) *Scenario {
	rng := rand.New(rand.NewSource(seed))
	sc := &Scenario{Prop: "C06", Seed: seed, Params: map[string]int{"obs_cookie": 1, "obs_repeat": 3}}
	sc.Sched = genSched(rng, tier, rng.Intn(3) == 0)
	sc.Sched.MaxSteps = 40000
	interval := time.Duration(pick(rng, 200, 500)) * time.Millisecond
	sc.HC = HCKnobs{Interval: interval, Timeout: 100 * time.Millisecond, TargetTimeout: 2 * time.Second}
	op := ActorSpec{Name: "op"}
	ci := genConfigPrefix(rng, sc, &op, rng.Intn(7))
	op.Ops = append(op.Ops, Op{Kind: "observe", Tag: "before"})
	names := sortedKeys(ci.services)
	name := names[rng.Intn(len(names))]
	bind := cfgBindings[name]
	deployT := time.Duration(pick(rng, 400, 900)) * time.Millisecond
	f := Op{Service: name, Hosts: bind.Hosts, Paths: bind.Paths, DeployTimeout: deployT, DrainTimeout: 300 * time.Millisecond, Tag: "failing"}
	bad := func(ph ...Phase) []string {
		t := ci.newTargets(sc, rng, 1+rng.Intn(2))
		sc.Targets[len(sc.Targets)-1].Phases = ph
		return t
	}
	class := rng.Intn(13)
	switch class {
	case 12: // one target never healthy, another healthy at first and failing again before the deadline
		f.Kind = pick(rng, "deploy", "rollout_deploy")
		f.Targets = ci.newTargets(sc, rng, 2)
		sc.Targets[len(sc.Targets)-2].Phases = []Phase{{Until: time.Duration(50+rng.Intn(int(deployT/time.Millisecond)/2)) * time.Millisecond, Kind: "ok"}, {Kind: "status", Status: 500}}
		sc.Targets[len(sc.Targets)-1].Phases = []Phase{neverHealthy(rng, sc.HC.Timeout)}
	case 0: // malformed target name
		f.Kind = pick(rng, "deploy", "rollout_deploy")
		f.Targets = append(ci.newTargets(sc, rng, rng.Intn(2)), pick(rng, "bad target!", "http://x:80", "", "a/b", ":80"))
	case 1: // never healthy
		f.Kind = pick(rng, "deploy", "rollout_deploy")
		f.Targets = bad(neverHealthy(rng, sc.HC.Timeout))
	case 2: // healthy too late
		f.Kind = pick(rng, "deploy", "rollout_deploy")
		f.Targets = bad(healthyAfter(rng, deployT+time.Duration(100+rng.Intn(400))*time.Millisecond, sc.HC.Timeout)...)
	case 3: // unreadable certificate
		f.Kind, f.Targets = "deploy", ci.newTargets(sc, rng, 1)
		f.Svc = &SvcOpts{TLS: true, StaticCert: "bad"}
	case 4: // unparsable / missing error page directory
		f.Kind, f.Targets = "deploy", ci.newTargets(sc, rng, 1)
		f.Svc = &SvcOpts{ErrorPages: pick(rng, "bad", "missing")}
	case 5: // automatic TLS with a wildcard host
		f.Kind, f.Targets = "deploy", ci.newTargets(sc, rng, 1)
		f.Hosts = []string{"*.auto.test"}
		f.Svc = &SvcOpts{TLS: true, ACME: true}
	case 6, 7: // host conflict, found only after the new targets became healthy
		other := "web"
		if name == "web" {
			if !ci.services["api"] {
				b := cfgBindings["api"]
				// make sure a second service exists (before the observation)
				pre := Op{Kind: "deploy", Service: "api", Hosts: b.Hosts, Paths: b.Paths, Targets: ci.newTargets(sc, rng, 1), DeployTimeout: 3 * time.Second, DrainTimeout: 300 * time.Millisecond}
				op.Ops = append(op.Ops[:len(op.Ops)-1], pre, op.Ops[len(op.Ops)-1])
				ci.services["api"] = true
			}
			other = "api"
		}
		ob := cfgBindings[other]
		f.Kind, f.Targets = "deploy", ci.newTargets(sc, rng, 1+rng.Intn(2))
		f.Hosts, f.Paths = ob.Hosts, ob.Paths
		if rng.Intn(2) == 0 && len(ob.Paths) > 1 {
			f.Paths = ob.Paths[1:]
		}
		if rng.Intn(2) == 0 {
			sc.Targets[len(sc.Targets)-1].Phases = healthyAfter(rng, time.Duration(50+rng.Intn(200))*time.Millisecond, sc.HC.Timeout)
		}
	case 8, 9: // unknown service
		f.Service = "ghost"
		f.Kind = pick(rng, "pause", "stop", "resume", "remove", "rollout_deploy", "rollout_set", "rollout_stop")
		if f.Kind == "rollout_deploy" {
			f.Targets = ci.newTargets(sc, rng, 1)
		}
		f.Hosts, f.Paths = nil, nil
	default: // rollout split without rollout targets
		f.Kind, f.Percent = "rollout_set", 50
		for _, n := range names {
			if !ci.hasRollout[n] {
				f.Service = n
			}
		}
		f.Hosts, f.Paths = nil, nil
	}
	sc.Note = fmt.Sprintf("failure class %d", class)
	op.Ops = append(op.Ops, f)
	op.Ops = append(op.Ops, Op{Kind: "observe", Tag: "after"})
	op.Ops = append(op.Ops, Op{Kind: "sleep", Delay: 5*interval + sc.HC.Timeout})
	sc.Actors = append(sc.Actors, op)
	// background traffic during everything
	nc := rng.Intn(3)
	for c := 0; c < nc; c++ {
		a := ActorSpec{Name: fmt.Sprintf("client%d", c)}
		for i := 0; i < 3+rng.Intn(5); i++ {
			a.Ops = append(a.Ops, Op{Kind: "request", Host: pick(rng, "", "api.test", "adm.test"), Path: pick(rng, "/", "/api/x", "/v2"), Delay: time.Duration(rng.Intn(700)) * time.Millisecond, Cookie: pick(rng, "", "kamal-rollout=vip")})
		}
		sc.Actors = append(sc.Actors, a)
	}
	return sc
}

func checkC06(r *RunResult) []Violation {
	var out []Violation
	w := r.W
	var cmd *CmdResult
	for _, c := range w.Cmds {
		if c.Op.Tag == "failing" {
			cmd = c
		}
	}
	before, after := w.ObsByTag("before", ""), w.ObsByTag("after", "")
	if cmd == nil || cmd.Ret == 0 || before == nil || after == nil {
		return out
	}
	if cmd.Panic != "" {
		return out // reported by the generic check
	}
	if cmd.Err == nil {
		r.Probes["unexpected_success"]++
		return out // C06 speaks about commands that report an error
	}
	r.Probes["failed_as_expected"]++
	if r.Sc.Note == "failure class 1" || r.Sc.Note == "failure class 12" || strings.Contains(r.Sc.Note, "class 2") || strings.Contains(r.Sc.Note, "class 6") || strings.Contains(r.Sc.Note, "class 7") {
		r.Probes["late_failure"]++
	}
	for _, c := range w.Cmds {
		if c.Call < cmd.Call && (c.Op.Kind == "pause" || c.Op.Kind == "stop" || c.Op.Kind == "rollout_deploy" || c.Op.Kind == "rollout_set") {
			r.Probes["prefix_has_pause_or_rollout"]++
			break
		}
	}
	if d := DiffObs(before, after, true); len(d) > 0 {
		out = append(out, Violation{Prop: "C06", Clause: "failed-command-changed-observable-state", Sig: cmd.Op.Kind,
			Msg: fmt.Sprintf("%s %s failed with %q but the observable configuration differs afterwards: %s", cmd.Op.Kind, cmd.Op.Service, cmd.Err, trunc(strings.Join(d, "; "), 600))})
	}
	// nothing keeps running: no probe and no request to the rejected targets
	// after the return (end of the step in which the command returned)
	retEnd := 1 << 60
	for i := range r.H.Events {
		e := &r.H.Events[i]
		if e.Seq > cmd.Ret && (e.Kind == "step" || e.Kind == "stall") {
			retEnd = e.Seq
			break
		}
	}
	rej := map[string]bool{}
	for _, t := range cmd.Op.Targets {
		rej[t] = true
	}
	for i := range r.H.Events {
		e := &r.H.Events[i]
		if e.Seq <= retEnd || !rej[e.Target] {
			continue
		}
		if isProbeSend(e) {
			out = append(out, Violation{Prop: "C06", Clause: "rejected-target-still-probed", Sig: cmd.Op.Kind,
				Msg: fmt.Sprintf("%s %s failed with %q at #%d (t=%v) but its target %s was probed again at #%d (t=%v)", cmd.Op.Kind, cmd.Op.Service, cmd.Err, cmd.Ret, cmd.RetT, e.Target, e.Seq, e.T)})
			break
		}
		if e.Kind == "net.write" {
			out = append(out, Violation{Prop: "C06", Clause: "rejected-target-got-request", Sig: cmd.Op.Kind,
				Msg: fmt.Sprintf("%s %s failed but its target %s received request bytes at #%d", cmd.Op.Kind, cmd.Op.Service, e.Target, e.Seq)})
			break
		}
	}
	return out
}
