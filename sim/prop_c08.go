package sim

import (
	"fmt"
	"html"
	"math/rand"
	"strings"
)

// C08 — a stopped service answers 503 with the operator's message until resumed.

func init() {
	Register(&Prop{
		ID:    "C08",
		Gen:   genC08,
		Check: checkC08,
		Nontrivial: func(r *RunResult) bool {
			return r.Probes["states_visited"] >= 3 && r.Probes["stop_pages_checked"] > 0
		},
	})
}

var stopMessages = []string{
	"", "back soon", "<b>bold</b> & <script>alert(1)</script>", `quotes "double" and 'single'`, "{{.Message}} {{ template \"x\" }}",
	"ünïcödé ✓ 日本語", "a&amp;b &lt; already escaped", "</p></article><h1>x</h1>", "line1\nline2", "%s %d {{", "]] [[ markers", "<!-- comment -->", "&", "<", "'",
}

func genC08(seed int64, tier string) *Scenario {
	rng := rand.New(rand.NewSource(seed))
	sc := &Scenario{Prop: "C08", Seed: seed}
	sc.Sched = genSched(rng, tier, rng.Intn(2) == 0)
	sc.Sched.MaxSteps = 15000
	pages := ""
	if rng.Intn(2) == 0 {
		pages = "good"
		sc.Pages = map[string]string{"503.html": "<html><body>CUSTOM503[[{{.Message}}]]END</body></html>"}
		if rng.Intn(2) == 0 {
			sc.Pages["404.html"] = "<html>custom 404</html>"
		}
	}
	// messages: a few from the list plus random printable strings
	var msgs []string
	for i := 0; i < 4; i++ {
		msgs = append(msgs, stopMessages[rng.Intn(len(stopMessages))])
	}
	var b strings.Builder
	alphabet := []rune("ab <>&\"'{}%/=;é✓\\")
	for i := 0; i < 1+rng.Intn(12); i++ {
		b.WriteRune(alphabet[rng.Intn(len(alphabet))])
	}
	msgs = append(msgs, b.String())
	genPauseWorld(rng, sc, msgs, pages)
	// make sure a stop happens in most runs
	for i := range sc.Actors[0].Ops {
		o := &sc.Actors[0].Ops[i]
		if o.Kind == "pause" && rng.Intn(2) == 0 {
			o.Kind, o.Message = "stop", msgs[rng.Intn(len(msgs))]
		}
	}
	return sc
}

// messageRegion extracts the part of a 503 page where the message goes.
func messageRegion(body string, custom bool) (string, bool) {
	if custom {
		i := strings.Index(body, "CUSTOM503[[")
		j := strings.LastIndex(body, "]]END")
		if i < 0 || j < i {
			return "", false
		}
		return body[i+len("CUSTOM503[[") : j], true
	}
	i := strings.Index(body, "<article>")
	j := strings.Index(body, "</article>")
	if i < 0 || j < i {
		return "", false
	}
	return strings.TrimSpace(body[i+len("<article>") : j]), true
}

func checkC08(r *RunResult) []Violation {
	out := checkPauseWorld(r, "C08")
	w := r.W
	eps := buildEpochs(r, "web")
	custom := len(r.Sc.Pages) > 0
	seen := map[string]bool{}
	for _, e := range eps {
		if e.stable {
			seen[e.states[0].kind] = true
		}
	}
	delete(seen, "absent")
	r.Probes["states_visited"] = len(seen)
	for _, q := range w.Responses {
		if q.Ret == 0 || q.Status != 503 {
			continue
		}
		ov := overlapping(eps, q.Call, q.Ret)
		var cands []string
		for _, e := range ov {
			for _, s := range e.states {
				if s.kind == "stopped" {
					cands = append(cands, s.msg)
				}
			}
		}
		if len(cands) == 0 {
			continue // flagged by the base oracle
		}
		body := string(q.Body)
		region, ok := messageRegion(body, custom)
		if !ok {
			out = append(out, Violation{Prop: "C08", Clause: "503-page-malformed", Msg: fmt.Sprintf("request %s: 503 page is not the %s page: %q", q.ReqID, map[bool]string{true: "service's custom", false: "built-in"}[custom], trunc(body, 120))})
			continue
		}
		r.Probes["stop_pages_checked"]++
		match := false
		for _, m := range cands {
			if m == "" {
				if (custom && region == "") || (!custom && strings.Contains(region, "temporarily unavailable")) {
					match = true
				}
				continue
			}
			inner := region
			if !custom {
				inner = strings.TrimSuffix(strings.TrimPrefix(region, "<p>"), "</p>")
			}
			if html.UnescapeString(inner) == m && !strings.ContainsAny(inner, "<>\"'") && ampsEscaped(inner) {
				match = true
			}
		}
		if !match {
			out = append(out, Violation{Prop: "C08", Clause: "stop-message-not-rendered-as-escaped-text",
				Msg: fmt.Sprintf("request %s: message region of the 503 page is %q; expected the HTML-escaped text of one of %q", q.ReqID, trunc(region, 160), cands)})
		}
		if ct := q.Header.Get("Content-Type"); !strings.HasPrefix(ct, "text/html") {
			out = append(out, Violation{Prop: "C08", Clause: "503-page-content-type", Msg: fmt.Sprintf("request %s: content type %q", q.ReqID, ct)})
		}
	}
	return out
}

// ampsEscaped: every '&' starts a character reference.
func ampsEscaped(s string) bool {
	for i := 0; i < len(s); i++ {
		if s[i] != '&' {
			continue
		}
		j := strings.IndexByte(s[i:], ';')
		if j < 2 || j > 10 {
			return false
		}
	}
	return true
}
