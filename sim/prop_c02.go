package sim

import (
	"fmt"
	"math/rand"
	"sort"
	"strings"
	"time"
)

// C02 — no request fails while a service is redeployed.

func init() {
	Register(&Prop{
		ID:    "C02",
		Gen:   genC02,
		Check: checkC02,
		Nontrivial: func(r *RunResult) bool {
			return r.Probes["req_overlaps_swap_window"] > 0
		},
		Rule: "seeded scenario (2-4 successive deploys, some as rollout deploys with cookie traffic, 1-3 targets each, 2-8 clients) x seeded schedule; non-trivial = at least one request's route-lookup..claim window overlapped a deploy's healthy..drained window; distinct = distinct hash of the decision sequence projected on (task kind, yield point)",
	})
}

func genC02(seed int64, tier string) *Scenario {
	rng := rand.New(rand.NewSource(seed))
	sc := &Scenario{Prop: "C02", Seed: seed}
	sc.Sched = genSched(rng, tier, true)
	sc.Sched.MaxSteps = 15000
	sc.HC = HCKnobs{Interval: time.Duration(pick(rng, 200, 500, 1000)) * time.Millisecond, Timeout: time.Duration(pick(rng, 300, 500, 1000)) * time.Millisecond}
	gens := 2 + rng.Intn(3)
	op := ActorSpec{Name: "op"}
	rollout := rng.Intn(3) == 0
	for g := 0; g < gens; g++ {
		nt := 1 + rng.Intn(3)
		var names []string
		for j := 0; j < nt; j++ {
			addr := fmt.Sprintf("g%dt%d:80", g, j)
			names = append(names, addr)
			ts := TargetSpec{Addr: addr}
			if rng.Intn(3) == 0 {
				ts.Phases = healthyAfter(rng, oddMs(50+rng.Intn(1500), rng.Intn(400)), sc.HC.Timeout)
			}
			sc.Targets = append(sc.Targets, ts)
		}
		kind := "deploy"
		if rollout && g > 0 && rng.Intn(2) == 0 {
			kind = "rollout_deploy"
		}
		o := Op{Kind: kind, Service: "web", Targets: names, DeployTimeout: 10 * time.Second, DrainTimeout: 8 * time.Second}
		if g > 0 {
			o.Delay = oddMs(rng.Intn(400), rng.Intn(400))
		}
		op.Ops = append(op.Ops, o)
		if kind == "rollout_deploy" && rng.Intn(2) == 0 {
			op.Ops = append(op.Ops, Op{Kind: "rollout_set", Service: "web", Percent: pick(rng, 0, 30, 50, 100), Allow: []string{"vip"}})
		}
	}
	sc.Actors = append(sc.Actors, op)
	if rng.Intn(3) == 0 {
		// the goroutine that completes a probe of a new target is descheduled
		// somewhere between the answer and the rotation update, until the deploy
		// has moved on
		g := 1 + rng.Intn(gens-1)
		at := pick(rng, "hc.report", "health.completed", "health.updated", "health.updated", "lb.stateChanged", "lb.stateChanged")
		until := pick(rng, "lb.waitDone", "deploy.healthy", "router.install", "router.install", "deploy.beforeDrain", "deploy.done")
		max := time.Duration(20+rng.Intn(600)) * time.Millisecond
		for _, t := range sc.Targets {
			if strings.HasPrefix(t.Addr, fmt.Sprintf("g%dt", g)) {
				sc.TaskHolds = append(sc.TaskHolds, TaskHold{Task: "hc:" + t.Addr, Hold: Hold{At: at, For: until, N: 1, Max: max}})
			}
		}
	}
	if rng.Intn(6) == 0 {
		// a later generation with a single target gives its first 2xx just before
		// its deploy timeout, and the goroutine completing that probe is
		// descheduled across the expiry
		for oi := range sc.Actors[0].Ops {
			o := &sc.Actors[0].Ops[oi]
			if oi > 0 && o.Kind == "deploy" && len(o.Targets) == 1 {
				for ti := range sc.Targets {
					if sc.Targets[ti].Addr == o.Targets[0] {
						o.DeployTimeout = deadlineRace(rng, sc, &sc.Targets[ti], sc.HC.Interval)
						o.Tag = "deadline-race"
						// and somebody asks right when the timeout has fired
						sc.Actors = append(sc.Actors, ActorSpec{Name: "zracer", Ops: []Op{
							{Kind: "request", Path: "/x", After: "target.waitTimeout", AfterN: 1, Delay: 20 * time.Second},
							{Kind: "request", Path: "/x", Delay: 2 * time.Millisecond},
							{Kind: "request", Path: "/x", Delay: 5 * time.Millisecond}}})
					}
				}
				break
			}
		}
	}
	nc := 2 + rng.Intn(7)
	for c := 0; c < nc; c++ {
		a := ActorSpec{Name: fmt.Sprintf("client%d", c)}
		nr := 3 + rng.Intn(8)
		for i := 0; i < nr; i++ {
			o := Op{Kind: "request", Path: "/x", Delay: oddMs(rng.Intn(300), rng.Intn(400))}
			if i == 0 {
				o.Delay += time.Duration(rng.Intn(1500)) * time.Millisecond
			}
			if rng.Intn(2) == 0 {
				alignOp(rng, &o, deployTriggers, gens*2)
			}
			if rng.Intn(4) == 0 {
				holdOp(rng, &o, []string{"deploy.healthy", "router.install", "deploy.beforeDrain", "drain.begin", "drain.marked", "drain.end", "deploy.done", "cmd.ret"})
				lockHoldOp(rng, &o)
			}
			o.Sim = simDirective(time.Duration(rng.Intn(4))*oddMs(40, rng.Intn(400)), rng.Intn(60), "")
			if rollout && rng.Intn(2) == 0 {
				o.Cookie = "kamal-rollout=" + pick(rng, "vip", "u1", "u2", "u3", "zz")
			}
			a.Ops = append(a.Ops, o)
		}
		sc.Actors = append(sc.Actors, a)
	}
	return sc
}

type genInfo struct {
	targets map[string]bool
	call    int
	ret     int
	ok      bool
	slot    string
}

func checkC02(r *RunResult) []Violation {
	var out []Violation
	w := r.W
	// generations in call order
	var gens []genInfo
	for _, c := range w.Cmds {
		if c.Op.Kind != "deploy" && c.Op.Kind != "rollout_deploy" {
			continue
		}
		g := genInfo{targets: map[string]bool{}, call: c.Call, ret: c.Ret, ok: c.Err == nil && c.Ret != 0, slot: c.Op.Kind}
		for _, t := range c.Op.Targets {
			g.targets[t] = true
		}
		gens = append(gens, g)
		if c.Ret != 0 && c.Err != nil && c.Op.Tag != "deadline-race" { // (that one is scripted to fail on its timeout)
			out = append(out, Violation{Prop: "C02", Clause: "deploy-of-healthy-targets-failed", Msg: fmt.Sprintf("deploy %v returned %v at #%d although every target becomes healthy well inside the deploy timeout", c.Op.Targets, c.Err, c.Ret)})
		}
	}
	if len(gens) == 0 || gens[0].ret == 0 {
		return out
	}
	firstRet := gens[0].ret
	ev := stepIndex(r.H)
	for _, q := range w.Responses {
		if q.Call < firstRet || q.Ret == 0 {
			continue
		}
		// admissible targets: any generation whose deploy had been called
		// before the response and that was not superseded (by a later
		// successful deploy into the same slot that had returned) before the
		// request was invoked.
		adm := map[string]bool{}
		for i, g := range gens {
			if g.call > q.Ret {
				continue
			}
			superseded := false
			for j := i + 1; j < len(gens); j++ {
				if gens[j].slot == g.slot && gens[j].ok && gens[j].ret < q.Call {
					superseded = true
				}
			}
			if superseded {
				continue
			}
			for t := range g.targets {
				adm[t] = true
			}
		}
		bad := ""
		switch {
		case strings.HasPrefix(q.Err, "PANIC"):
			bad = q.Err
		case q.Status != 200:
			bad = fmt.Sprintf("status %d", q.Status)
		case !adm[q.ServedBy]:
			bad = fmt.Sprintf("served by %q which is not a target of a generation in force during the request", q.ServedBy)
		case !strings.HasPrefix(string(q.Body), q.ServedBy+"|"+q.ReqID+"|"):
			bad = fmt.Sprintf("body %q is not what %s sent for this request", trunc(string(q.Body), 40), q.ServedBy)
		}
		if bad == "" {
			continue
		}
		sig := classifyProxyError(r, ev, q)
		out = append(out, Violation{Prop: "C02", Clause: "proxy-error-during-redeploy", Sig: sig,
			Msg: fmt.Sprintf("request %s (invoked #%d, answered #%d at t=%v) got %s while service web was being redeployed [%s]", q.ReqID, q.Call, q.Ret, q.RetT, bad, sig)})
	}
	// probes
	for _, q := range w.Responses {
		if reqOverlapsSwap(ev, q, gens) {
			r.Probes["req_overlaps_swap_window"]++
		}
	}
	return out
}

func trunc(s string, n int) string {
	if len(s) > n {
		return s[:n] + "..."
	}
	return s
}

// stepIdx gives quick access to step events.
type stepIdx struct {
	byReq  map[string][]*Event // step events per request id
	byTask map[string][]*Event // step events per task
	all    []*Event
}

func stepIndex(h *History) *stepIdx {
	ix := &stepIdx{byReq: map[string][]*Event{}, byTask: map[string][]*Event{}}
	for i := range h.Events {
		e := &h.Events[i]
		if e.Kind == "step" {
			ix.all = append(ix.all, e)
			ix.byTask[e.Task] = append(ix.byTask[e.Task], e)
			if e.Req != "" {
				ix.byReq[e.Req] = append(ix.byReq[e.Req], e)
			}
		}
	}
	return ix
}

func (ix *stepIdx) reqStepEvent(req, point string) *Event {
	for _, e := range ix.byReq[req] {
		if e.Info == point {
			return e
		}
	}
	return nil
}

// lockTail returns, for the step event e of a task (a hand-placed yield
// point), the last of the steps of the same task that directly follow it and
// were released at an automatic lock yield in the given source file ("" = any
// file); e itself when there is none (plain build, or automatic yields off).
// In the build that yields before every lock acquisition, the code between two
// hand-placed yield points runs in several steps; what the plain build does
// "in the step released at X" happens there somewhere between X and the step
// after lockTail(X).
func (ix *stepIdx) lockTail(e *Event, file string) *Event {
	steps := ix.byTask[e.Task]
	i := sort.Search(len(steps), func(k int) bool { return steps[k].Seq >= e.Seq })
	last := e
	for k := i + 1; k < len(steps) && strings.HasPrefix(steps[k].Info, "lock@"+file); k++ {
		last = steps[k]
	}
	return last
}

// hasLockSteps reports whether the task was ever released at an automatic lock yield.
func (ix *stepIdx) hasLockSteps(task string) bool {
	for _, e := range ix.byTask[task] {
		if strings.HasPrefix(e.Info, "lock@") {
			return true
		}
	}
	return false
}

func (ix *stepIdx) reqStep(req, point string) int {
	for _, e := range ix.byReq[req] {
		if e.Info == point {
			return e.Seq
		}
	}
	return 0
}

func reqOverlapsSwap(ix *stepIdx, q *Response, gens []genInfo) bool {
	routed := ix.reqStep(q.ReqID, "router.serve")
	if routed == 0 {
		routed = q.Call
	}
	claim := ix.reqStep(q.ReqID, "lb.claimed")
	if claim == 0 {
		claim = q.Ret
	}
	for _, e := range ix.all {
		if e.Seq > routed && e.Seq < claim {
			switch e.Info {
			case "deploy.healthy", "deploy.beforeUpdate", "deploy.beforeInstall", "router.install", "deploy.beforeDrain", "drain.begin", "drain.marked":
				return true
			}
		}
	}
	return false
}

// classifyProxyError derives the causal signature of a proxy-generated error
// from the step events: which window the request fell into. The route lookup
// runs in the step released at "router.serve"; the table swap in the step
// released at "router.install"; a target is marked draining in the step
// released at "drain.begin".
func classifyProxyError(r *RunResult, ix *stepIdx, q *Response) string {
	lookup := ix.reqStep(q.ReqID, "router.serve")
	if lookup == 0 {
		lookup = q.Call
	}
	claim := ix.reqStep(q.ReqID, "lb.claim")
	if claim == 0 {
		claim = q.Ret
	}
	swapBetween, drainBeforeClaim := false, false
	installSeq := 0
	for _, e := range ix.all {
		if e.Info == "router.install" && e.Seq > lookup && e.Seq < claim {
			swapBetween = true
			installSeq = e.Seq
		}
	}
	if swapBetween {
		for _, e := range ix.all {
			if e.Info == "drain.begin" && e.Seq > installSeq && e.Seq < claim {
				drainBeforeClaim = true
			}
		}
	}
	switch {
	case q.Status == 503 && swapBetween && drainBeforeClaim:
		return "stale-lb:lookup<swap<drain-start<claim:503"
	case q.Status == 200 && swapBetween:
		return "stale-lb:lookup<swap<claim:served-by-replaced"
	}
	return fmt.Sprintf("status=%d", q.Status)
}
