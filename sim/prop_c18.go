package sim

import (
	"fmt"
	"math/rand"
	"time"
)

// C18 — concurrent commands, probes and traffic never corrupt the proxy.
// (a) controlled mode: panics (in commands and requests: recovered and
// reported; in repo goroutines: the worker dies and the launcher attributes it
// to the seed), deadlocks (watchdog), goroutines left at teardown, commands
// that never return. (b) race mode: the same worlds with the yield hooks off,
// built with -race, on all cores.

func init() {
	Register(&Prop{
		ID:    "C18",
		Gen:   genC18,
		Check: checkC18,
		Nontrivial: func(r *RunResult) bool {
			return r.Probes["command_kinds_overlapping_traffic"] >= 3
		},
	})
}

func genC18(seed int64, tier string) *Scenario {
	rng := rand.New(rand.NewSource(seed))
	sc := &Scenario{Prop: "C18", Seed: seed}
	sc.Sched = genSched(rng, tier, true)
	sc.Sched.MaxSteps = 40000
	interval := time.Duration(pick(rng, 100, 300)) * time.Millisecond
	sc.HC = HCKnobs{Interval: interval, Timeout: 100 * time.Millisecond, TargetTimeout: 2 * time.Second}
	tn := 0
	targets := func(n int) []string {
		var out []string
		for j := 0; j < n; j++ {
			tn++
			addr := fmt.Sprintf("k%d:80", tn)
			ts := TargetSpec{Addr: addr}
			switch rng.Intn(5) {
			case 0: // flaps after becoming healthy
				a := time.Duration(1+rng.Intn(3)) * interval
				ts.Phases = []Phase{{Until: a, Kind: "ok"}, failPhase(rng, sc.HC.Timeout, a+2*interval), {Kind: "ok"}}
			case 1:
				ts.Phases = healthyAfter(rng, time.Duration(rng.Intn(300))*time.Millisecond, sc.HC.Timeout)
			}
			sc.Targets = append(sc.Targets, ts)
			out = append(out, addr)
		}
		return out
	}
	svcs := []string{"web", "api"}
	bind := map[string][]string{"web": nil, "api": {"api.test"}}
	tlsOpts := func() *SvcOpts {
		if rng.Intn(2) == 0 {
			return &SvcOpts{TLS: true, StaticCert: "good", TLSRedirect: rng.Intn(2) == 0}
		}
		return nil
	}
	setup := ActorSpec{Name: "op0"}
	for _, s := range svcs {
		setup.Ops = append(setup.Ops, Op{Kind: "deploy", Service: s, Hosts: bind[s], Targets: targets(1 + rng.Intn(2)), DeployTimeout: 2 * time.Second, DrainTimeout: 300 * time.Millisecond})
	}
	// a sub-path service whose TLS settings follow the root service of its host
	setup.Ops = append(setup.Ops, Op{Kind: "deploy", Service: "sub", Hosts: []string{"api.test"}, Paths: []string{"/sub"}, Targets: targets(1), DeployTimeout: 2 * time.Second, DrainTimeout: 300 * time.Millisecond})
	mk := func() Op {
		s := svcs[rng.Intn(2)]
		d := time.Duration(rng.Intn(150)) * time.Millisecond
		var o Op
		switch rng.Intn(12) {
		case 0, 1:
			o = Op{Kind: "deploy", Service: s, Hosts: bind[s], Targets: targets(1 + rng.Intn(2)), DeployTimeout: time.Second, DrainTimeout: 300 * time.Millisecond, Svc: tlsOpts()}
		case 2:
			o = Op{Kind: "rollout_deploy", Service: s, Targets: targets(1), DeployTimeout: time.Second, DrainTimeout: 300 * time.Millisecond}
		case 3:
			o = Op{Kind: "rollout_set", Service: s, Percent: rng.Intn(101), Allow: []string{"vip"}}
		case 4:
			o = Op{Kind: "rollout_stop", Service: s}
		case 5:
			o = Op{Kind: "pause", Service: s, DrainTimeout: 300 * time.Millisecond, PauseTimeout: time.Duration(100+rng.Intn(400)) * time.Millisecond}
		case 6:
			o = Op{Kind: "stop", Service: s, DrainTimeout: 300 * time.Millisecond, Message: "x"}
		case 7, 8:
			o = Op{Kind: "resume", Service: s}
		case 9:
			o = Op{Kind: "remove", Service: s}
		case 10:
			o = Op{Kind: "list"}
		default:
			o = Op{Kind: "deploy", Service: s, Hosts: bind[svcs[rng.Intn(2)]], Targets: targets(1), DeployTimeout: time.Second, DrainTimeout: 300 * time.Millisecond} // may conflict
		}
		o.Delay = d
		if rng.Intn(3) == 0 {
			alignOp(rng, &o, []string{"deploy.healthy", "router.install", "drain.begin", "drain.marked", "cmd.found", "service.beforeDrain", "snapshot.lock", "snapshot.begin", "lb.stateChanged", "health.updated", "deploy.beforeDispose"}, 6)
			o.Delay = 400 * time.Millisecond
		}
		return o
	}
	for i := 0; i < 2+rng.Intn(6); i++ {
		setup.Ops = append(setup.Ops, mk())
	}
	sc.Actors = append(sc.Actors, setup)
	for k := 1; k <= 1+rng.Intn(2); k++ {
		a := ActorSpec{Name: fmt.Sprintf("op%d", k)}
		for i := 0; i < 2+rng.Intn(6); i++ {
			o := mk()
			if i == 0 {
				o.Delay += 50 * time.Millisecond
			}
			a.Ops = append(a.Ops, o)
		}
		sc.Actors = append(sc.Actors, a)
	}
	if rng.Intn(3) == 0 {
		// somebody keeps listing the services, each time when a deploy or a remove
		// is about to change the routing table
		a := ActorSpec{Name: "lister"}
		for i := 0; i < 3+rng.Intn(4); i++ {
			o := Op{Kind: "list"}
			alignOp(rng, &o, []string{"deploy.beforeUpdate", "deploy.beforeInstall", "router.install", "op.remove", "op.deploy"}, 8)
			o.Delay = 300 * time.Millisecond
			a.Ops = append(a.Ops, o)
		}
		sc.Actors = append(sc.Actors, a)
	}
	if rng.Intn(3) == 0 {
		// rollout churn: the split of a live rollout is changed again and again
		// while cookie-bearing requests are evaluated against it
		setup.Ops = append(setup.Ops[:3:3], append([]Op{
			{Kind: "rollout_deploy", Service: "web", Targets: targets(1), DeployTimeout: 2 * time.Second, DrainTimeout: 300 * time.Millisecond},
			{Kind: "rollout_set", Service: "web", Percent: 50, Allow: []string{"vip"}},
		}, setup.Ops[3:]...)...)
		roll := ActorSpec{Name: "opR"}
		for i := 0; i < 6+rng.Intn(6); i++ {
			o := Op{Kind: pick(rng, "rollout_set", "rollout_set", "rollout_set", "rollout_stop", "resume"), Service: "web", Percent: rng.Intn(101), Allow: pick(rng, nil, []string{"vip"}, []string{"a", "b", "vip"}), Delay: time.Duration(20+rng.Intn(100)) * time.Millisecond}
			if i == 0 {
				o.Delay += 100 * time.Millisecond
			}
			roll.Ops = append(roll.Ops, o)
		}
		sc.Actors = append(sc.Actors, roll)
		for c := 0; c < 2; c++ {
			a := ActorSpec{Name: fmt.Sprintf("cookie%d", c)}
			for i := 0; i < 8+rng.Intn(8); i++ {
				o := Op{Kind: "request", Path: "/x", Cookie: "kamal-rollout=" + pick(rng, "vip", "a", "b", "u1", "u2"), Delay: time.Duration(10+rng.Intn(60)) * time.Millisecond}
				if i == 0 {
					o.Delay += 100 * time.Millisecond
				}
				a.Ops = append(a.Ops, o)
			}
			sc.Actors = append(sc.Actors, a)
		}
	}
	for c := 0; c < 2+rng.Intn(4); c++ {
		a := ActorSpec{Name: fmt.Sprintf("client%d", c)}
		for i := 0; i < 2+rng.Intn(6); i++ {
			o := Op{Kind: "request", Host: pick(rng, "", "api.test"), Path: pick(rng, "/x", "/up", "/y?z=1", "/sub/z"), Delay: time.Duration(rng.Intn(200)) * time.Millisecond, TLS: rng.Intn(4) == 0}
			switch rng.Intn(6) {
			case 0:
				o.Cookie = "kamal-rollout=" + pick(rng, "vip", "a", "b")
			case 1, 5:
				o.Upgrade, o.AbortAfter = true, time.Duration(100+rng.Intn(500))*time.Millisecond
				if rng.Intn(2) == 0 {
					alignOp(rng, &o, []string{"drain.begin", "drain.marked", "service.beforeDrain", "deploy.beforeDrain"}, 3)
					o.Delay = 300 * time.Millisecond
				}
			case 2:
				o.Sim = simDirective(time.Duration(rng.Intn(400))*time.Millisecond, 0, "")
			case 3:
				o.Sim = pick(rng, "fault=close_before", "mode=hang", "fault=close_mid_body;size=50")
			case 4:
				o.AbortAfter = time.Duration(20+rng.Intn(200)) * time.Millisecond
				o.Sim = "delay=300ms"
			}
			if rng.Intn(4) == 0 {
				holdOp(rng, &o, []string{"router.install", "drain.begin", "drain.end", "cmd.ret", "cmd.found"})
				lockHoldOp(rng, &o)
			}
			a.Ops = append(a.Ops, o)
		}
		sc.Actors = append(sc.Actors, a)
	}
	addCensus(sc)
	return sc
}

func checkC18(r *RunResult) []Violation {
	var out []Violation
	w := r.W
	if r.Budget == "" {
		for _, c := range w.Cmds {
			if c.Ret == 0 {
				out = append(out, Violation{Prop: "C18", Clause: "command-never-returned", Sig: c.Op.Kind, Msg: fmt.Sprintf("%s %s called at #%d (t=%v) never returned (deadlock?)", c.Op.Kind, c.Op.Service, c.Call, c.CallT)})
			}
		}
		for _, q := range w.Responses {
			if q.Ret == 0 {
				out = append(out, Violation{Prop: "C18", Clause: "request-never-answered", Msg: fmt.Sprintf("request %s invoked at #%d (t=%v) was never answered", q.ReqID, q.Call, q.CallT)})
				break
			}
		}
	}
	if r.Deadlock != "" {
		out = append(out, Violation{Prop: "C18", Clause: "deadlock", Msg: "cycle in the wait-for graph of the proxy's mutexes: " + trunc(r.Deadlock, 900)})
	} else if r.Leak != "" {
		out = append(out, Violation{Prop: "C18", Clause: "goroutines-stuck-at-teardown", Msg: trunc(r.Leak, 400)})
	}
	// how many different command kinds ran while a request was in progress
	kinds := map[string]bool{}
	for _, c := range w.Cmds {
		for _, q := range w.Responses {
			if c.Ret != 0 && q.Ret != 0 && c.Call < q.Ret && q.Call < c.Ret {
				kinds[c.Op.Kind] = true
				break
			}
		}
	}
	r.Probes["command_kinds_overlapping_traffic"] = len(kinds)
	return out
}
