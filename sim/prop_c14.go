package sim

import (
	"fmt"
	"math/rand"
	"os"
	"path/filepath"
	"strings"
	"time"
)

// C14 — buffering delivers exact bodies, enforces limits and cleans up.
// Server mode. (memory limit, total limit, body length) range over a small
// scope that a batch covers completely (0..8, 0..12, 0..14) plus seeded larger
// sizes; bodies arrive in 1-4 pieces with virtual delays.

func init() {
	Register(&Prop{
		ID:    "C14",
		Gen:   genC14,
		Post:  postC14,
		Check: checkC14,
		Nontrivial: func(r *RunResult) bool {
			return r.Probes["boundary_inside_piece"] > 0 || r.Probes["abnormal_endings"] > 0
		},
	})
}

func body14(n int) string {
	var b strings.Builder
	for i := 0; i < n; i++ {
		b.WriteByte(byte('A' + i%26))
	}
	return b.String()
}

func genC14(seed int64, tier string) *Scenario {
	rng := rand.New(rand.NewSource(seed))
	sc := &Scenario{Prop: "C14", Seed: seed, Server: true, Params: map[string]int{"scan_tmp": 1}}
	sc.Sched = genSched(rng, tier, false)
	sc.Sched.MaxSteps = 40000
	sc.HC = HCKnobs{Interval: 30 * time.Second, Timeout: time.Second, TargetTimeout: 2 * time.Second}
	// the small scope, derived from the seed so that a batch covers it
	u := uint64(seed)
	M, L, n := int(u%9), int((u/9)%13), int((u/117)%15)
	big := rng.Intn(6) == 0
	if big {
		M, L, n = pick(rng, 16, 64, 1000, 4096), pick(rng, 0, 100, 3000, 5000), pick(rng, 15, 64, 65, 999, 1000, 1001, 3001, 5001, 40000)
	}
	br, bs := rng.Intn(4) != 0, rng.Intn(4) != 0
	sc.Params["M"], sc.Params["L"], sc.Params["n"], sc.Params["br"], sc.Params["bs"] = M, L, n, b2i(br), b2i(bs)
	mem := int64(M)
	if M == 0 {
		mem = -1
	}
	tgt := &TgtOpts{BufferRequests: br, BufferResponses: bs, MaxMem: mem, MaxReq: int64(L), MaxResp: int64(L)}
	sc.Targets = append(sc.Targets, TargetSpec{Addr: "buf1:80", Link: Link{Frag: pick(rng, 0, 0, 3, 50), FragGap: time.Millisecond}})
	main := ActorSpec{Name: "main"}
	main.Ops = append(main.Ops, Op{Kind: "deploy", Service: "web", Hosts: []string{"web.test"}, Targets: []string{"buf1:80"}, DeployTimeout: 3 * time.Second, DrainTimeout: 300 * time.Millisecond, Tgt: tgt})
	sc.Actors = append(sc.Actors, main)
	nc := 1 + rng.Intn(2)
	sc.Params["clients"] = nc
	for c := 0; c < nc; c++ {
		a := ActorSpec{Name: fmt.Sprintf("client%d", c)}
		k := 2 + rng.Intn(4)
		for i := 0; i < k; i++ {
			o := Op{Kind: "request", Host: "web.test", Delay: time.Duration(5+rng.Intn(30)) * time.Millisecond}
			if i == 0 {
				o.Delay += 300 * time.Millisecond
			}
			size := n
			if i > 0 && rng.Intn(2) == 0 { // neighbours of the limits
				size = pick(rng, M-1, M, M+1, L-1, L, L+1, n)
				if size < 0 {
					size = 0
				}
			}
			switch rng.Intn(8) {
			case 0, 1, 2: // upload
				o.Tag = fmt.Sprintf("upload:%d", size)
				body := body14(size)
				// split points
				np := 1 + rng.Intn(4)
				var cuts []int
				for j := 0; j < np-1 && size > 0; j++ {
					cuts = append(cuts, rng.Intn(size+1))
				}
				cuts = append(cuts, size)
				sortInts(cuts)
				chunked := rng.Intn(3) == 0
				head := fmt.Sprintf("POST /up HTTP/1.1\r\nHost: web.test\r\nX-Request-Id: {RID}\r\nX-Sim: mode=filler;size=0\r\nConnection: close\r\n")
				if chunked {
					head += "Transfer-Encoding: chunked\r\n\r\n"
				} else {
					head += fmt.Sprintf("Content-Length: %d\r\n\r\n", size)
				}
				o.Raw = head
				prev := 0
				for _, cpos := range cuts {
					piece := body[prev:cpos]
					if chunked {
						if len(piece) > 0 {
							o.Parts = append(o.Parts, fmt.Sprintf("%x\r\n%s\r\n", len(piece), piece))
						}
					} else if len(piece) > 0 {
						o.Parts = append(o.Parts, piece)
					}
					prev = cpos
				}
				if chunked {
					o.Parts = append(o.Parts, "0\r\n\r\n")
				}
				o.PartGap = time.Duration(5+rng.Intn(40)) * time.Millisecond
				if rng.Intn(8) == 0 && len(o.Parts) > 1 { // the client gives up during the upload
					o.AbortAfter = o.PartGap + o.PartGap/2
					o.Tag = fmt.Sprintf("upload-abort:%d", size)
				}
			case 3, 4, 5: // download
				o.Tag = fmt.Sprintf("download:%d", size)
				o.Path = "/down"
				o.Sim = fmt.Sprintf("size=%d", size)
				if rng.Intn(8) == 0 && size > 0 { // (an empty body cannot be cut: the response would be complete and the target would merely close an idle keep-alive connection under the next request)
					o.Sim += ";fault=close_mid_body"
					o.Tag = fmt.Sprintf("download-cut:%d", size)
				}
				if size < 20 { // the standard payload has a prefix; ask for raw filler instead
					o.Sim += ";mode=filler"
				}
			case 6: // event stream: never buffered
				o.Tag = "sse"
				o.Path = "/events"
				o.Sim = "mode=sse;chunks=3;gap=50ms;size=60"
			case 7:
				if rng.Intn(2) == 0 {
					o.Tag, o.Upgrade, o.AbortAfter = "upgrade", true, 120*time.Millisecond
				} else {
					o.Tag, o.Path, o.Sim = "target-error", "/err", "fault=close_before"
				}
			}
			a.Ops = append(a.Ops, o)
		}
		sc.Actors = append(sc.Actors, a)
	}
	return sc
}

func sortInts(xs []int) {
	for i := 1; i < len(xs); i++ {
		for j := i; j > 0 && xs[j] < xs[j-1]; j-- {
			xs[j], xs[j-1] = xs[j-1], xs[j]
		}
	}
}

// scanTmp lists the world's private TMPDIR.
func (w *World) scanTmp() (files int, bytes int64) {
	ents, _ := os.ReadDir(filepath.Join(w.Dir, "tmp"))
	for _, e := range ents {
		if fi, err := e.Info(); err == nil {
			files++
			bytes += fi.Size()
		}
	}
	return
}

func postC14(w *World) {
	f, b := w.scanTmp()
	w.H.AddForce(Event{Kind: "tmp.final", N: f, Info: fmt.Sprint(b)})
}

func checkC14(r *RunResult) []Violation {
	var out []Violation
	w := r.W
	P := r.Sc.Params
	M, L, br, bs := P["M"], P["L"], P["br"] != 0, P["bs"] != 0
	add := func(clause, sig, msg string) {
		out = append(out, Violation{Prop: "C14", Clause: clause, Sig: sig, Msg: msg})
	}
	if M <= 8 && L <= 12 && P["n"] <= 14 {
		r.Probes[fmt.Sprintf("case:%d-%d-%d", M, L, P["n"])]++ // the small scope: 9 x 13 x 15 = 1755 triples
	} else {
		r.Probes["large_sizes"]++
	}
	lastPart := map[string]*Event{}
	scanAt := map[string]*Event{}
	for i := range r.H.Events {
		e := &r.H.Events[i]
		switch e.Kind {
		case "req.part":
			lastPart[e.Req] = e
		case "tmp.scan":
			if scanAt[e.Req] == nil {
				scanAt[e.Req] = e
			}
		case "tmp.final":
			if e.N != 0 {
				add("spill-file-left-behind", "", fmt.Sprintf("%d temporary file(s) (%s bytes) remain in TMPDIR after every request has ended", e.N, e.Info))
			}
		}
	}
	for _, q := range w.Responses {
		if q.Actor == "main" || q.Ret == 0 {
			continue
		}
		kind, arg, _ := strings.Cut(q.Op.Tag, ":")
		size := 0
		fmt.Sscanf(arg, "%d", &size)
		send := firstSend(r, q.ReqID)
		over := L > 0 && size > L
		switch kind {
		case "upload":
			nparts := len(q.Op.Parts)
			if nparts > 1 && M > 0 && size > M {
				r.Probes["boundary_inside_piece"]++
			}
			if br && over {
				if q.Status != 413 || send != nil {
					add("oversized-request-not-refused", fmt.Sprintf("n=%d,L=%d", size, L), fmt.Sprintf("request %s: body of %d bytes exceeds max-request-body %d; got status %d, target contacted=%v", q.ReqID, size, L, q.Status, send != nil))
				}
				break
			}
			if q.Status != 200 {
				add("upload-failed", fmt.Sprintf("n=%d,L=%d,M=%d,br=%v,status=%d", size, L, M, br, q.Status), fmt.Sprintf("request %s: upload of %d bytes (limit %d, memory %d, buffering %v) got status %d err=%q", q.ReqID, size, L, M, br, q.Status, q.Err))
				break
			}
			seen := ""
			for _, s := range w.Seen["buf1:80"] {
				if s.ReqID == q.ReqID {
					seen = string(s.Body)
				}
			}
			if seen != body14(size) {
				add("request-body-changed", fmt.Sprintf("n=%d,M=%d", size, M), fmt.Sprintf("request %s: sent %d bytes %q, the target received %d bytes %q (memory limit %d)", q.ReqID, size, trunc(body14(size), 30), len(seen), trunc(seen, 30), M))
			}
			if br {
				if lp := lastPart[q.ReqID]; lp != nil && send != nil && send.Seq < lp.Seq {
					add("target-contacted-before-body-complete", "", fmt.Sprintf("request %s: the target was contacted at #%d (t=%v) but the last piece of the body left the client at #%d (t=%v)", q.ReqID, send.Seq, send.T, lp.Seq, lp.T))
				}
				if sc := scanAt[q.ReqID]; sc != nil && P["clients"] == 1 {
					var bytes int64
					fmt.Sscanf(sc.Info, "%d", &bytes)
					need := int64(size - M)
					if need > 0 && bytes < need {
						add("body-held-in-memory-beyond-limit", fmt.Sprintf("n=%d,M=%d", size, M), fmt.Sprintf("request %s: %d body bytes are buffered with a memory limit of %d, but the spill file holds only %d bytes", q.ReqID, size, M, bytes))
					}
					if need <= 0 && sc.N > 0 {
						r.Probes["spill_although_within_memory"]++
					}
					r.Probes["spill_checked"]++
				}
			}
		case "upload-abort":
			r.Probes["abnormal_endings"]++
		case "download", "download-cut":
			want := body14(size)
			if size >= 20 {
				w2 := []byte("buf1:80|" + q.ReqID + "|")
				for len(w2) < size {
					w2 = append(w2, byte('a'+len(w2)%26))
				}
				want = string(w2)
			}
			if kind == "download-cut" {
				r.Probes["abnormal_endings"]++
				if q.Clean && q.Status == 200 && string(q.Body) == want && size > 1 {
					add("truncated-response-presented-as-complete", "", fmt.Sprintf("request %s: the target cut its response but the client got the full body", q.ReqID))
				}
				break
			}
			if bs && over {
				if q.Status != 500 || strings.Contains(string(q.Body), want[:minInt(len(want), 12)]) && len(want) >= 4 {
					add("oversized-response-not-refused", fmt.Sprintf("n=%d,L=%d", size, L), fmt.Sprintf("request %s: response of %d bytes exceeds max-response-body %d; client got status %d and %d body bytes %q", q.ReqID, size, L, q.Status, len(q.Body), trunc(string(q.Body), 30)))
				}
				break
			}
			if q.Status != 200 || !q.Clean || string(q.Body) != want {
				add("response-body-changed", fmt.Sprintf("n=%d,M=%d,L=%d,bs=%v", size, M, L, bs), fmt.Sprintf("request %s: target sent %d bytes, client got status %d clean=%v and %d bytes %q (memory %d, limit %d, buffering %v)", q.ReqID, size, q.Status, q.Clean, len(q.Body), trunc(string(q.Body), 30), M, L, bs))
			}
		case "sse":
			if q.Status != 200 {
				add("event-stream-failed", "", fmt.Sprintf("request %s: status %d err=%q", q.ReqID, q.Status, q.Err))
				break
			}
			// delivered incrementally: the client has the headers before the target sent its last chunk
			var lastChunk *Event
			for i := range r.H.Events {
				e := &r.H.Events[i]
				if e.Kind == "tgt.chunk" && e.Req == q.ReqID {
					lastChunk = e
				}
			}
			if lastChunk != nil && q.HeadT >= lastChunk.T {
				add("event-stream-buffered", "", fmt.Sprintf("request %s: an event stream reached the client only at t=%v, after the target had sent its last event at t=%v", q.ReqID, q.HeadT, lastChunk.T))
			}
			r.Probes["sse_checked"]++
		case "upgrade":
			if q.Status != 101 {
				add("upgrade-failed", "", fmt.Sprintf("request %s: upgrade got status %d err=%q", q.ReqID, q.Status, q.Err))
			}
		case "target-error":
			r.Probes["abnormal_endings"]++
			if q.Status != 502 {
				add("target-error-status", "", fmt.Sprintf("request %s: target closed before answering; client got %d", q.ReqID, q.Status))
			}
		}
	}
	return out
}

func minInt(a, b int) int {
	if a < b {
		return a
	}
	return b
}
