package sim

import (
	"bufio"
	"context"
	"crypto/tls"
	"fmt"
	"math/rand"
	"net/http"
	"strings"
	"sync"
	"time"
)

// C16 — TLS policy: redirect, refuse, certificates only for bound hosts.
// History/order clauses are simulated (deploy, redeploy, remove, restore in
// every order); the redirect-string assembly is an input clause, sampled.

func init() {
	Register(&Prop{
		ID:    "C16",
		Gen:   genC16,
		Check: checkC16,
		Nontrivial: func(r *RunResult) bool {
			return r.Probes["root_changed_under_subpath"] > 0
		},
	})
}

// acmeFake counts what reaches the ACME directory address.
type acmeFake struct {
	mu    sync.Mutex
	w     *World
	Hits  int
	Marks []int // event seq of each hit
}

func (a *acmeFake) Connect(ctx context.Context, kind string, client Addr) (func(*Conn), error) {
	return func(s *Conn) {
		go func() {
			defer s.Close()
			br := bufio.NewReader(s)
			for {
				req, err := http.ReadRequest(br)
				if err != nil {
					return
				}
				a.mu.Lock()
				a.Hits++
				a.Marks = append(a.Marks, a.w.H.Add(Event{Kind: "acme.hit", Info: req.Method + " " + req.URL.Path}))
				a.mu.Unlock()
				s.Write([]byte("HTTP/1.1 404 Not Found\r\nContent-Length: 0\r\nConnection: close\r\n\r\n"))
				return
			}
		}()
	}, nil
}

type c16Svc struct {
	name  string
	host  string
	path  string // "" = root
	hosts []string
}

var c16Svcs = []c16Svc{
	{name: "root1", host: "h1.test"},
	{name: "sub1", host: "h1.test", path: "/sub"},
	{name: "sub2", host: "h2.test", path: "/only"},
	{name: "wild", host: "*.w.test"},
	{name: "auto", host: "auto.test"},
	{name: "dflt", host: ""},
}

func genC16(seed int64, tier string) *Scenario {
	rng := rand.New(rand.NewSource(seed))
	sc := &Scenario{Prop: "C16", Seed: seed, Params: map[string]int{"acme": 1}}
	sc.Sched = genSched(rng, tier, false)
	sc.Sched.MaxSteps = 100000
	sc.HC = HCKnobs{Interval: 10 * time.Second, Timeout: time.Second, TargetTimeout: 2 * time.Second}
	op := ActorSpec{Name: "op"}
	tn := 0
	router := ""
	deploy := func(s c16Svc) {
		tn++
		addr := fmt.Sprintf("%s-%d:80", s.name, tn)
		sc.Targets = append(sc.Targets, TargetSpec{Addr: addr})
		o := Op{Kind: "deploy", Router: router, Service: s.name, Targets: []string{addr}, DeployTimeout: 2 * time.Second, DrainTimeout: 200 * time.Millisecond}
		if s.host != "" {
			o.Hosts = []string{s.host}
		}
		if s.path != "" {
			o.Paths = []string{s.path}
		}
		svc := &SvcOpts{TLS: rng.Intn(3) != 0, TLSRedirect: rng.Intn(2) == 0, StripPrefix: s.path != "" && rng.Intn(2) == 0}
		if svc.TLS {
			svc.StaticCert = "good"
		}
		switch s.name {
		case "auto":
			svc.TLS, svc.StaticCert, svc.ACME = true, "", true
		case "wild":
			if rng.Intn(4) == 0 { // must be refused
				svc.TLS, svc.StaticCert, svc.ACME = true, "", true
				o.Tag = "wildcard-acme"
			}
		case "dflt":
			if rng.Intn(2) == 0 {
				svc.TLS, svc.StaticCert = false, ""
			}
		}
		o.Svc = svc
		op.Ops = append(op.Ops, o)
	}
	probe := func(tag string) {
		for _, h := range []string{"h1.test", "h1.test:8443", "h2.test", "x.w.test", "auto.test", "other.test"} {
			for _, p := range []string{"/", "/up", "/sub/x?a=1&b=%20c", "/only", "/q?x=http://e/;y", "/files/a%2Fb%3Bc/%41?x=1", "/sub/d%2Fe//f?y=%2F"} {
				for _, t := range []bool{false, true} {
					op.Ops = append(op.Ops, Op{Kind: "request", Router: router, Host: h, Path: p, TLS: t, Tag: tag})
				}
			}
		}
		op.Ops = append(op.Ops, Op{Kind: "certs", Router: router, Tag: tag})
	}
	n := 3 + rng.Intn(6)
	step := 0
	for i := 0; i < n; i++ {
		s := c16Svcs[rng.Intn(len(c16Svcs))]
		if rng.Intn(2) == 0 { // root and sub-path service of the same host
			s = c16Svcs[rng.Intn(2)]
		}
		switch rng.Intn(10) {
		case 8: // stopped services still apply their TLS policy first, also to the health-check path
			op.Ops = append(op.Ops, Op{Kind: "stop", Router: router, Service: s.name, DrainTimeout: 200 * time.Millisecond, Message: "closed"})
		case 9:
			op.Ops = append(op.Ops, Op{Kind: "resume", Router: router, Service: s.name})
		case 0:
			op.Ops = append(op.Ops, Op{Kind: "remove", Router: router, Service: s.name})
		case 1:
			if router == "" {
				op.Ops = append(op.Ops, Op{Kind: "restore", Router: "B", From: "A"})
				router = "B"
				break
			}
			deploy(s)
		default:
			deploy(s)
		}
		step++
		probe(fmt.Sprintf("s%d", step))
	}
	sc.Actors = append(sc.Actors, op)
	return sc
}

type tlsModel struct {
	host, path    string
	tls, redirect bool
	static, acme  bool
	target        string
	stopped       bool
}

func checkC16(r *RunResult) []Violation {
	var out []Violation
	w := r.W
	add := func(clause, sig, msg string) {
		out = append(out, Violation{Prop: "C16", Clause: clause, Sig: sig, Msg: msg})
	}
	model := map[string]*tlsModel{}
	type item struct {
		seq int
		c   *CmdResult
		q   *Response
		k   *CertProbe
	}
	var items []item
	for _, c := range w.Cmds {
		items = append(items, item{seq: c.Call, c: c})
	}
	for _, q := range w.Responses {
		items = append(items, item{seq: q.Call, q: q})
	}
	for i := range w.CertProbes {
		items = append(items, item{seq: w.CertProbes[i].Seq, k: &w.CertProbes[i]})
	}
	for i := 1; i < len(items); i++ {
		for j := i; j > 0 && items[j].seq < items[j-1].seq; j-- {
			items[j], items[j-1] = items[j-1], items[j]
		}
	}
	// resolve: which service handles (host, path) and which are its effective TLS settings
	serviceFor := func(host, path string) *tlsModel {
		host = stripPort(host)
		level := func(h string) []*tlsModel {
			var xs []*tlsModel
			for _, m := range model {
				if m.host == h {
					xs = append(xs, m)
				}
			}
			return xs
		}
		c := level(host)
		if len(c) == 0 {
			if i := strings.Index(host, "."); i > 0 {
				c = level("*" + host[i:])
			}
		}
		if len(c) == 0 {
			c = level("")
		}
		var best *tlsModel
		for _, m := range c {
			p := m.path
			if p == "" {
				p = "/"
			}
			if matchesOnBoundary(path, p) && (best == nil || len(p) > len(best.path)) {
				best = m
			}
		}
		return best
	}
	effective := func(m *tlsModel) (bool, bool) {
		if m.path == "" {
			return m.tls, m.redirect
		}
		// sub-path: follows the root-path service of its host (TLS off if none)
		root := serviceFor(m.host, "/")
		if root != nil && root.path == "" {
			return root.tls, root.redirect
		}
		return false, true
	}
	prevRootTLS := map[string]string{}
	for _, it := range items {
		switch {
		case it.c != nil:
			c := it.c
			if c.Ret == 0 {
				continue
			}
			switch c.Op.Kind {
			case "deploy":
				if c.Op.Tag == "wildcard-acme" {
					if c.Err == nil {
						add("automatic-tls-accepted-for-wildcard", "", fmt.Sprintf("deploy of %s with automatic TLS for host %v was accepted", c.Op.Service, c.Op.Hosts))
					} else {
						r.Probes["wildcard_acme_rejected"]++
					}
				}
				if c.Err != nil {
					continue
				}
				m := &tlsModel{target: c.Op.Targets[0]}
				if old := model[c.Op.Service]; old != nil {
					m.stopped = old.stopped // a redeploy keeps the running / stopped state
				}
				if len(c.Op.Hosts) > 0 {
					m.host = c.Op.Hosts[0]
				}
				if len(c.Op.Paths) > 0 {
					m.path = c.Op.Paths[0]
				}
				if s := c.Op.Svc; s != nil {
					m.tls, m.redirect, m.static, m.acme = s.TLS, s.TLSRedirect, s.StaticCert == "good", s.ACME
				}
				model[c.Op.Service] = m
			case "remove":
				if c.Err == nil {
					delete(model, c.Op.Service)
				}
			case "stop", "resume":
				if m := model[c.Op.Service]; m != nil && c.Err == nil {
					m.stopped = c.Op.Kind == "stop"
				}
			}
			// does a sub-path service exist whose root changed?
			for _, m := range model {
				if m.path != "" {
					t, rd := effective(m)
					cur := fmt.Sprint(t, rd)
					if prev, ok := prevRootTLS[m.host+m.path]; ok && prev != cur {
						r.Probes["root_changed_under_subpath"]++
					}
					prevRootTLS[m.host+m.path] = cur
				}
			}
		case it.q != nil:
			q := it.q
			if q.Ret == 0 {
				continue
			}
			path, _, _ := strings.Cut(q.Op.Path, "?")
			m := serviceFor(q.Op.Host, path)
			if m == nil {
				if q.Status != 404 {
					add("routing", "", fmt.Sprintf("request %s for %s%s (no service) got %d", q.ReqID, q.Op.Host, q.Op.Path, q.Status))
				}
				continue
			}
			tlsOn, redirect := effective(m)
			forwarded := firstSend(r, q.ReqID) != nil
			what := fmt.Sprintf("request %s (%s%s, tls=%v) handled by a service with effective tls=%v redirect=%v (sub-path=%v)", q.ReqID, q.Op.Host, q.Op.Path, q.Op.TLS, tlsOn, redirect, m.path != "")
			switch {
			case tlsOn && redirect && !q.Op.TLS:
				want := "https://" + stripPort(q.Op.Host) + q.Op.Path
				if q.Status != 301 || forwarded {
					add("plain-http-not-redirected", fmt.Sprint(m.path != ""), fmt.Sprintf("%s: got status %d, forwarded=%v; expected 301", what, q.Status, forwarded))
				} else if loc := q.Header.Get("Location"); loc != want {
					add("redirect-location", "", fmt.Sprintf("%s: Location %q, expected %q", what, loc, want))
				} else {
					r.Probes["redirects_checked"]++
				}
			case !tlsOn && q.Op.TLS:
				if q.Status != 503 || forwarded {
					add("tls-request-to-non-tls-service", fmt.Sprint(m.path != ""), fmt.Sprintf("%s: got status %d, forwarded=%v; expected 503", what, q.Status, forwarded))
				}
			case m.stopped:
				// the TLS policy has been applied (above); then: 200 from the proxy
				// itself for the health-check path, 503 for everything else
				r.Probes["requests_to_stopped_service"]++
				want := 503
				if path == "/up" {
					want = 200
				}
				if q.Status != want || forwarded {
					add("stopped-service", fmt.Sprint(path == "/up"), fmt.Sprintf("%s, stopped: got status %d, forwarded=%v; expected %d from the proxy itself", what, q.Status, forwarded, want))
				}
			default:
				if q.Status != 200 || q.ServedBy != m.target {
					add("request-not-forwarded", fmt.Sprint(m.path != ""), fmt.Sprintf("%s: got status %d from %q; expected 200 from %s", what, q.Status, q.ServedBy, m.target))
				}
			}
		case it.k != nil:
			k := it.k
			// which names are bound to a TLS-enabled service (root path of the host)?
			for name, res := range k.Results {
				m := serviceFor(name, "/")
				bound := m != nil && m.path == "" && m.tls && name != ""
				switch {
				case bound && m.static:
					if res != "cert" {
						add("certificate-not-served-for-bound-name", "", fmt.Sprintf("GetCertificate(%q) = %q although the name is bound to a service with a static certificate", name, res))
					}
				case bound && m.acme:
					if res == "cert" {
						add("certificate-from-nowhere", "", fmt.Sprintf("GetCertificate(%q) returned a certificate although the ACME server only answers 404", name))
					}
					r.Probes["acme_names_probed"]++
				default:
					if res == "cert" {
						add("certificate-served-for-unbound-name", "", fmt.Sprintf("GetCertificate(%q) returned a certificate although no TLS-enabled service is bound to that name", name))
					}
					if k.AcmeHits[name] > 0 {
						add("certificate-requested-for-unbound-name", "", fmt.Sprintf("GetCertificate(%q) contacted the ACME server %d time(s) although no automatic-TLS service is bound to that name", name, k.AcmeHits[name]))
					}
				}
				if bound && m.acme && k.First[name] && k.AcmeHits[name] == 0 {
					add("certificate-not-requested-for-bound-name", "", fmt.Sprintf("GetCertificate(%q): the name is bound to an automatic-TLS service but the ACME server was not contacted", name))
				}
			}
			r.Probes["cert_probe_rounds"]++
		}
	}
	return out
}

// CertProbe is the result of one round of GetCertificate calls.
type CertProbe struct {
	Seq      int
	Results  map[string]string
	AcmeHits map[string]int
	First    map[string]bool // first time this name was probed while bound to the current auto service
}

var c16SNINames = []string{"h1.test", "h2.test", "x.w.test", "y.x.w.test", "w.test", "auto.test", "other.test", "sub.auto.test", ""}

func (w *World) probeCerts(actor string, idx int, op *Op) {
	ri := w.router(op.Router)
	cp := CertProbe{Results: map[string]string{}, AcmeHits: map[string]int{}, First: map[string]bool{}}
	cp.Seq = w.H.Add(Event{Kind: "certs", Actor: actor, Op: idx, Task: ri.Name})
	for _, name := range c16SNINames {
		before := w.acmeHits()
		c, err := ri.Router.GetCertificate(&tls.ClientHelloInfo{ServerName: name, SupportedProtos: []string{"http/1.1"}, CipherSuites: []uint16{tls.TLS_ECDHE_ECDSA_WITH_AES_128_GCM_SHA256}, SupportedCurves: []tls.CurveID{tls.CurveP256}, SignatureSchemes: []tls.SignatureScheme{tls.ECDSAWithP256AndSHA256}, SupportedVersions: []uint16{tls.VersionTLS12, tls.VersionTLS13}})
		switch {
		case err != nil:
			cp.Results[name] = "err: " + err.Error()
		case c != nil:
			cp.Results[name] = "cert"
		}
		cp.AcmeHits[name] = w.acmeHits() - before
		key := ri.Name + "|" + name
		if !w.certSeen[key] {
			cp.First[name] = true
			w.certSeen[key] = true
		}
	}
	w.mu.Lock()
	w.CertProbes = append(w.CertProbes, cp)
	w.mu.Unlock()
}

func (w *World) acmeHits() int {
	if w.acme == nil {
		return 0
	}
	w.acme.mu.Lock()
	defer w.acme.mu.Unlock()
	return w.acme.Hits
}
