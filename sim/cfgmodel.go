package sim

import (
	"encoding/json"
	"sort"
	"strings"
)

// ---------------------------------------------------------------------------
// Sequential reference model of the proxy's configuration as a function of the
// commands that succeeded, in the canonical form of ParseState. Used by C11 and
// C12 (per service, so that commands of different operators on different
// services compose in any order).
// ---------------------------------------------------------------------------

type cfgModel map[string]*SvcState

func (m cfgModel) clone() cfgModel {
	out := cfgModel{}
	for k, v := range m {
		c := *v
		c.Hosts = append([]string(nil), v.Hosts...)
		c.Paths = append([]string(nil), v.Paths...)
		c.Active = append([]string(nil), v.Active...)
		c.Rollout = append([]string(nil), v.Rollout...)
		c.Allow = append([]string(nil), v.Allow...)
		out[k] = &c
	}
	return out
}

// apply updates the model with a command that returned without error.
func (m cfgModel) apply(op *Op) {
	s := m[op.Service]
	switch op.Kind {
	case "deploy":
		if s == nil {
			s = &SvcState{Name: op.Service}
			m[op.Service] = s
		}
		s.Hosts, s.Paths = normHosts(op.Hosts), normPaths(op.Paths)
		s.Active = append([]string(nil), op.Targets...)
		s.TLS, s.Strip = false, false
		if op.Svc != nil {
			s.TLS, s.Strip = op.Svc.TLS, op.Svc.StripPrefix
		}
	case "rollout_deploy":
		if s != nil {
			s.Rollout = append([]string(nil), op.Targets...)
		}
	case "rollout_set":
		if s != nil {
			s.HasSplit, s.Percent, s.Allow = true, op.Percent, append([]string(nil), op.Allow...)
		}
	case "rollout_stop":
		if s != nil {
			s.HasSplit, s.Percent, s.Allow = false, 0, nil
		}
	case "pause":
		if s != nil {
			s.Pause, s.StopMsg, s.FailAfter = 1, "", op.PauseTimeout
		}
	case "stop":
		if s != nil {
			s.Pause, s.StopMsg = 2, op.Message
		}
	case "resume":
		if s != nil {
			s.Pause, s.StopMsg = 0, ""
		}
	case "remove":
		delete(m, op.Service)
	}
}

// canon renders one service state in a comparable form (fields that have no
// behavioural meaning in the current pause state are blanked).
func canonSvc(s *SvcState) string {
	if s == nil {
		return "<absent>"
	}
	c := *s
	if c.Pause != 1 {
		c.FailAfter = 0
	}
	if c.Pause != 2 {
		c.StopMsg = ""
	}
	if len(c.Allow) == 0 {
		c.Allow = nil
	}
	if len(c.Rollout) == 0 {
		c.Rollout = nil
	}
	if len(c.Hosts) == 0 {
		c.Hosts = []string{""}
	}
	b, _ := json.Marshal(c)
	return string(b)
}

func canonAll(states []SvcState) map[string]string {
	out := map[string]string{}
	for i := range states {
		out[states[i].Name] = canonSvc(&states[i])
	}
	return out
}

func (m cfgModel) canon() map[string]string {
	out := map[string]string{}
	for k, v := range m {
		out[k] = canonSvc(v)
	}
	return out
}

func describeCanon(m map[string]string) string {
	var parts []string
	ks := make([]string, 0, len(m))
	for k := range m {
		ks = append(ks, k)
	}
	sort.Strings(ks)
	for _, k := range ks {
		parts = append(parts, m[k])
	}
	return "[" + strings.Join(parts, " ") + "]"
}
