package sim

import (
	"fmt"
	"math/rand"
	"strings"
	"time"
)

// C03 — when deploy, pause or stop returns, the drained targets are quiescent.

func init() {
	Register(&Prop{
		ID:    "C03",
		Gen:   genC03,
		Check: checkC03,
		Nontrivial: func(r *RunResult) bool {
			return r.Probes["inflight_at_drain_start"] > 0
		},
	})
}

func genC03(seed int64, tier string) *Scenario {
	rng := rand.New(rand.NewSource(seed))
	sc := &Scenario{Prop: "C03", Seed: seed}
	sc.Sched = genSched(rng, tier, rng.Intn(2) == 0)
	sc.Sched.MaxSteps = 12000
	interval := time.Duration(pick(rng, 200, 500, 1000)) * time.Millisecond
	sc.HC = HCKnobs{Interval: interval, Timeout: time.Duration(pick(rng, 100, 300)) * time.Millisecond, TargetTimeout: 6 * time.Second}
	drainT := time.Duration(pick(rng, 300, 600, 1200, 2500)) * time.Millisecond
	op := ActorSpec{Name: "op"}
	mk := func(prefix string, n int) []string {
		var names []string
		for j := 0; j < n; j++ {
			addr := fmt.Sprintf("%s%d:80", prefix, j)
			names = append(names, addr)
			sc.Targets = append(sc.Targets, TargetSpec{Addr: addr})
		}
		return names
	}
	op.Ops = append(op.Ops, Op{Kind: "deploy", Service: "web", Targets: mk("a", 1+rng.Intn(3)), DeployTimeout: 5 * time.Second, DrainTimeout: drainT})
	hasRollout := rng.Intn(3) == 0
	if hasRollout {
		op.Ops = append(op.Ops, Op{Kind: "rollout_deploy", Service: "web", Targets: mk("r", 1+rng.Intn(2)), DeployTimeout: 5 * time.Second, DrainTimeout: drainT})
		op.Ops = append(op.Ops, Op{Kind: "rollout_set", Service: "web", Percent: 100})
	}
	base := time.Duration(300+rng.Intn(400)) * time.Millisecond
	kind := pick(rng, "deploy", "deploy", "pause", "stop", "rollout_deploy")
	if kind == "rollout_deploy" && !hasRollout {
		kind = "deploy"
	}
	cmd := Op{Kind: kind, Service: "web", DrainTimeout: drainT, DeployTimeout: 5 * time.Second, PauseTimeout: time.Duration(pick(rng, 500, 3000)) * time.Millisecond, Delay: base, Tag: "under-test", Message: "down"}
	if kind == "deploy" {
		cmd.Targets = mk("b", 1+rng.Intn(2))
	} else if kind == "rollout_deploy" {
		cmd.Targets = mk("s", 1)
	}
	if hasRollout && rng.Intn(3) == 0 {
		// the split is removed shortly before the command: requests already on
		// the rollout targets are still there when draining begins
		stopAt := time.Duration(20+rng.Intn(150)) * time.Millisecond
		if stopAt < cmd.Delay {
			op.Ops = append(op.Ops, Op{Kind: "rollout_stop", Service: "web", Delay: cmd.Delay - stopAt})
			cmd.Delay = stopAt
		}
	}
	op.Ops = append(op.Ops, cmd)
	if from := base - interval - 150*time.Millisecond; rng.Intn(4) == 0 && from > 50*time.Millisecond {
		// the targets about to be drained have failed their latest probe when the
		// command comes (they still serve what they have in flight)
		for j := range sc.Targets {
			if a := sc.Targets[j].Addr; (strings.HasPrefix(a, "a") || strings.HasPrefix(a, "r")) && rng.Intn(3) != 0 {
				sc.Targets[j].AbsBase = true
				sc.Targets[j].Phases = []Phase{{Until: from, Kind: "ok"}, {Until: pick(rng, 0, base+drainT+2*interval), Kind: "status", Status: 500}, {Kind: "ok"}}
			}
		}
	}
	if kind == "deploy" && rng.Intn(4) == 0 {
		// the new targets fail their probes soon after the deploy went through
		for j := range sc.Targets {
			if strings.HasPrefix(sc.Targets[j].Addr, "b") {
				sc.Targets[j].Phases = []Phase{{Until: time.Duration(50+rng.Intn(300)) * time.Millisecond, Kind: "ok"}, {Kind: "status", Status: 503}}
			}
		}
	}
	if kind == "pause" || kind == "stop" {
		if rng.Intn(2) == 0 {
			op.Ops = append(op.Ops, Op{Kind: "resume", Service: "web", Delay: time.Duration(200+rng.Intn(1500)) * time.Millisecond})
		}
	} else if rng.Intn(3) == 0 {
		op.Ops = append(op.Ops, Op{Kind: "pause", Service: "web", DrainTimeout: drainT, PauseTimeout: time.Second, Delay: time.Duration(100+rng.Intn(500)) * time.Millisecond, Tag: "under-test-2"})
	}
	op.Ops = append(op.Ops, Op{Kind: "sleep", Delay: 2 * interval})
	sc.Actors = append(sc.Actors, op)
	nc := 2 + rng.Intn(7)
	for c := 0; c < nc; c++ {
		a := ActorSpec{Name: fmt.Sprintf("client%d", c)}
		nr := 1 + rng.Intn(4)
		for i := 0; i < nr; i++ {
			o := Op{Kind: "request", Path: "/x"}
			// arrival: shortly before the command, aligned with one of its steps, or after it
			switch rng.Intn(4) {
			case 0, 1:
				o.Delay = base - time.Duration(rng.Intn(250))*time.Millisecond
				if i > 0 {
					o.Delay = time.Duration(rng.Intn(200)) * time.Millisecond
				}
			case 2:
				alignOp(rng, &o, c03Triggers, 3)
			default:
				o.Delay = base + time.Duration(rng.Intn(int(drainT/time.Millisecond)+300))*time.Millisecond
				if i > 0 {
					o.Delay = time.Duration(rng.Intn(300)) * time.Millisecond
				}
			}
			// duration relative to the drain deadline
			switch rng.Intn(7) {
			case 0:
				o.Sim = "mode=hang"
			case 1:
				o.Upgrade = true
				o.AbortAfter = time.Duration(1500+rng.Intn(3000)) * time.Millisecond
			case 2:
				o.Sim = simDirective(drainT+time.Duration(rng.Intn(200)-100)*time.Millisecond, 0, "")
			case 3, 4:
				o.Sim = simDirective(time.Duration(rng.Intn(int(drainT/time.Millisecond)))*time.Millisecond, rng.Intn(40), "")
			default:
				o.Sim = simDirective(time.Duration(rng.Intn(40))*time.Millisecond, 0, "")
			}
			if hasRollout && rng.Intn(2) == 0 {
				o.Cookie = "kamal-rollout=u" + fmt.Sprint(rng.Intn(5))
			}
			if rng.Intn(3) == 0 {
				holdOp(rng, &o, []string{"drain.begin", "drain.marked", "drain.snapshot", "drain.cancel", "drain.end", "cmd.ret", "deploy.done", "service.beforeDrain", "router.install", "deploy.beforeDispose"})
				lockHoldOp(rng, &o)
			}
			a.Ops = append(a.Ops, o)
		}
		sc.Actors = append(sc.Actors, a)
	}
	return sc
}

var c03Triggers = []string{"op.deploy", "op.pause", "op.stop", "cmd.found", "service.beforeDrain", "deploy.healthy", "deploy.beforeInstall", "router.install",
	"deploy.beforeDrain", "drain.begin", "drain.marked", "drain.snapshot", "drain.cancel", "drain.end", "deploy.beforeDispose", "hc.report", "health.updated"}

type exchange struct {
	target string
	req    string
	recv   *Event
	end    *Event // tgt.resp (non-101), tgt.abort, tgt.upclosed, or the proxy closing the connection
	up     bool
	upSeq  int // when the target wrote the 101
}

func exchangesOf(r *RunResult) []*exchange {
	open := map[string]*exchange{}
	byConn := map[string]*exchange{} // the exchange currently open on a proxy connection
	var all []*exchange
	for i := range r.H.Events {
		e := &r.H.Events[i]
		// From the proxy's side an exchange is over as soon as the proxy closes
		// the connection, whether or not the (scheduled) fake-target handler has
		// noticed yet.
		if e.Kind == "net.close" && strings.HasPrefix(e.Info, "client-side") {
			if x := byConn[e.Obj]; x != nil && x.end == nil {
				x.end = e
			}
			continue
		}
		if e.Req == "" || e.Target == "" {
			continue
		}
		key := e.Target + "|" + e.Req
		switch e.Kind {
		case "tgt.recv":
			x := &exchange{target: e.Target, req: e.Req, recv: e}
			open[key] = x
			byConn[e.Obj] = x
			all = append(all, x)
		case "tgt.resp":
			if x := open[key]; x != nil {
				if e.Status == 101 {
					x.up, x.upSeq = true, e.Seq
				} else if x.end == nil {
					x.end = e
				}
			}
		case "tgt.abort", "tgt.upclosed":
			if x := open[key]; x != nil && x.end == nil {
				x.end = e
			}
		}
	}
	return all
}

func checkC03(r *RunResult) []Violation {
	var out []Violation
	w := r.W
	z := slack(r.Sc)
	xs := exchangesOf(r)
	active, rollout := []string{}, []string{}
	for _, c := range w.Cmds {
		if c.Ret == 0 {
			continue
		}
		tagged := strings.HasPrefix(c.Op.Tag, "under-test")
		var drained []string
		until := 1 << 60 // event seq until which the drained targets must stay silent
		switch c.Op.Kind {
		case "deploy":
			if c.Err == nil {
				drained = active
				active = c.Op.Targets
			}
		case "rollout_deploy":
			if c.Err == nil {
				drained = rollout
				rollout = c.Op.Targets
			}
		case "pause", "stop":
			if c.Err == nil {
				drained = append(append([]string{}, active...), rollout...)
				// silent until the next resume is called (or a redeploy swaps them out)
				for _, c2 := range w.Cmds {
					if c2.Call > c.Ret && c2.Op.Kind == "resume" {
						until = c2.Call
						break
					}
				}
			}
		}
		if !tagged || len(drained) == 0 {
			continue
		}
		dset := map[string]bool{}
		for _, t := range drained {
			dset[t] = true
		}
		// drain start: the first target is marked in the step released at its
		// "drain.begin"; black-box lower bound is the call itself.
		drainStartSeq, drainStartT := 0, time.Duration(0)
		for i := range r.H.Events {
			e := &r.H.Events[i]
			if e.Seq > c.Call && e.Seq < c.Ret && e.Kind == "step" && e.Info == "drain.begin" && dset[e.Target] {
				drainStartSeq, drainStartT = e.Seq, e.T
				break
			}
		}
		if drainStartSeq == 0 {
			continue
		}
		// Everything that happens in the scheduler step in which the command
		// returns is concurrent with the return; "at return" means at the end
		// of that step.
		retEnd := 1 << 60
		for i := range r.H.Events {
			e := &r.H.Events[i]
			if e.Seq > c.Ret && (e.Kind == "step" || e.Kind == "stall") {
				retEnd = e.Seq
				break
			}
		}
		// (b) no request bytes are put on the wire to drained targets afterwards
		for i := range r.H.Events {
			e := &r.H.Events[i]
			if e.Kind == "net.write" && dset[e.Target] && e.Seq > retEnd && e.Seq < until {
				out = append(out, Violation{Prop: "C03", Clause: "request-sent-after-return", Sig: c.Op.Kind,
					Msg: fmt.Sprintf("the proxy wrote %d request bytes to drained target %s (%s) at #%d (t=%v), after %s had returned at #%d (t=%v)", e.N, e.Target, e.Obj, e.Seq, e.T, c.Op.Kind, c.Ret, c.RetT)})
				break
			}
		}
		for _, x := range xs {
			if !dset[x.target] {
				continue
			}
			// an exchange the target only looked at after the proxy had already
			// closed the connection is not the proxy's doing any more
			if connClosedBefore(r, x.recv.Obj, x.recv.Seq) {
				continue
			}
			// (a) quiescent at return
			if x.recv.Seq < c.Ret && (x.end == nil || x.end.Seq > retEnd) {
				endS := "never"
				if x.end != nil {
					endS = fmt.Sprintf("#%d (t=%v)", x.end.Seq, x.end.T)
				}
				out = append(out, Violation{Prop: "C03", Clause: "exchange-open-at-return", Sig: c.Op.Kind,
					Msg: fmt.Sprintf("%s returned at #%d (t=%v) while request %s, received by drained target %s at #%d, was still open (ended %s)", c.Op.Kind, c.Ret, c.RetT, x.req, x.target, x.recv.Seq, endS)})
			}
			if x.recv.Seq < drainStartSeq {
				r.Probes["inflight_at_drain_start"]++
			}
			// (c) in-flight requests run to normal completion for up to the drain timeout
			q := w.ResponseByID(x.req)
			if q == nil || x.recv.Seq > drainStartSeq {
				continue
			}
			deadline := drainStartT + c.Op.DrainTimeout
			switch {
			case x.up && x.upSeq > drainStartSeq:
				// it was an ordinary in-flight request when draining began and was
				// upgraded afterwards: it may run until the drain deadline
				r.Probes["upgraded_during_drain"]++
				if x.end == nil || x.end.T > deadline+z {
					out = append(out, Violation{Prop: "C03", Clause: "cut-off-after-deadline", Sig: c.Op.Kind,
						Msg: fmt.Sprintf("connection of %s on %s (upgraded after draining began) was still open after the drain deadline t=%v", x.req, x.target, deadline)})
				}
			case x.up:
				// upgraded connections are closed as soon as draining begins
				if x.end == nil || x.end.T > drainStartT+z {
					r.Probes["upgraded_at_drain"]++
					out = append(out, Violation{Prop: "C03", Clause: "upgraded-connection-not-closed-at-drain-start", Sig: c.Op.Kind,
						Msg: fmt.Sprintf("upgraded connection of %s on %s was still open %v after draining began at t=%v", x.req, x.target, z, drainStartT)})
				} else if x.end.Seq > drainStartSeq {
					r.Probes["upgraded_at_drain"]++
				}
			case x.end != nil && x.end.Kind == "tgt.resp" && x.end.T < deadline-z:
				// target finished in time: the client must get the target's complete response
				if q.Ret != 0 && (q.Status != x.end.Status || !strings.HasPrefix(string(q.Body), x.target+"|"+x.req+"|")) {
					out = append(out, Violation{Prop: "C03", Clause: "in-flight-request-not-completed-normally", Sig: c.Op.Kind,
						Msg: fmt.Sprintf("request %s was in flight on %s when draining began (t=%v) and its target finished at t=%v, before the drain deadline t=%v, but the client got status %d", x.req, x.target, drainStartT, x.end.T, deadline, q.Status)})
				}
			case x.end != nil && (x.end.Kind == "tgt.abort" || x.end.Kind == "net.close") && x.end.T >= x.recv.T+r.Sc.HC.TargetTimeout-z && r.Sc.HC.TargetTimeout > 0:
				// ended by the target timeout, not by the drain
				r.Probes["ended_by_target_timeout"]++
			case x.end != nil && (x.end.Kind == "tgt.abort" || x.end.Kind == "net.close"):
				r.Probes["cut_off_at_deadline"]++
				// cut off: only at the deadline, and with a 504
				if x.end.T < deadline-z && q.Op.AbortAfter == 0 {
					out = append(out, Violation{Prop: "C03", Clause: "cut-off-before-deadline", Sig: c.Op.Kind,
						Msg: fmt.Sprintf("request %s on %s was cut off at t=%v, before the drain deadline t=%v (drain began t=%v)", x.req, x.target, x.end.T, deadline, drainStartT)})
				}
				if x.end.T > deadline+z {
					out = append(out, Violation{Prop: "C03", Clause: "cut-off-after-deadline", Sig: c.Op.Kind,
						Msg: fmt.Sprintf("request %s on %s was still running at t=%v, after the drain deadline t=%v", x.req, x.target, x.end.T, deadline)})
				}
				if q.Ret != 0 && q.Status != 504 && q.Op.AbortAfter == 0 {
					out = append(out, Violation{Prop: "C03", Clause: "cut-off-without-504", Sig: c.Op.Kind,
						Msg: fmt.Sprintf("request %s was cut off by the drain but the client got status %d instead of 504", x.req, q.Status)})
				}
			}
		}
	}
	return out
}

// connClosedBefore reports whether the proxy side of connection id had been
// closed before event seq.
func connClosedBefore(r *RunResult, id string, seq int) bool {
	for i := range r.H.Events {
		e := &r.H.Events[i]
		if e.Seq >= seq {
			return false
		}
		if e.Kind == "net.close" && e.Obj == id && strings.HasPrefix(e.Info, "client-side") {
			return true
		}
	}
	return false
}
