//go:build autoyield

package sim

import "github.com/basecamp/kamal-proxy/internal/server"

// AutoYield reports whether this binary was built against the instrumented
// copy of the proxy (every lock acquisition is a yield point and lock
// ownership is tracked).
const AutoYield = true

func installAutoHooks(s *Sim) {
	server.SimLockHook = s.LockHook
	server.SimFSHook = s.FSHook
}
