package sim

import (
	"fmt"
	"math/rand"
	"strings"
	"time"
)

// C01 — traffic moves to new targets only after all of them pass a probe.

func init() {
	Register(&Prop{
		ID:    "C01",
		Gen:   genC01,
		Check: checkC01,
		Nontrivial: func(r *RunResult) bool {
			return r.Probes["req_during_command"] > 0 && r.Probes["non2xx_probe"] > 0
		},
	})
}

// slack returns the timing tolerance of a run: one microsecond per scheduler
// step plus every CPU stall the schedule may inject, plus a fixed margin.
func slack(sc *Scenario) time.Duration {
	return 5*time.Millisecond + time.Duration(sc.Sched.StallMax)*sc.Sched.StallDelta
}

func genC01(seed int64, tier string) *Scenario {
	rng := rand.New(rand.NewSource(seed))
	sc := &Scenario{Prop: "C01", Seed: seed}
	sc.Sched = genSched(rng, tier, true)
	sc.Sched.MaxSteps = 20000
	interval := time.Duration(pick(rng, 100, 200, 500, 1000)) * time.Millisecond
	sc.HC = HCKnobs{Interval: interval, Timeout: time.Duration(pick(rng, 100, 300, 1000)) * time.Millisecond}
	deployTimeout := time.Duration(pick(rng, 600, 1000, 2000, 3000)) * time.Millisecond
	op := ActorSpec{Name: "op"}
	hasOld := rng.Intn(4) != 0
	if hasOld {
		n := 1 + rng.Intn(2)
		var names []string
		for j := 0; j < n; j++ {
			names = append(names, fmt.Sprintf("old%d:80", j))
			sc.Targets = append(sc.Targets, TargetSpec{Addr: names[j]})
		}
		op.Ops = append(op.Ops, Op{Kind: "deploy", Service: "web", Targets: names, DeployTimeout: 5 * time.Second, DrainTimeout: 2 * time.Second})
	}
	kind := "deploy"
	if hasOld && rng.Intn(3) == 0 {
		kind = "rollout_deploy"
		if rng.Intn(2) == 0 {
			// an earlier rollout generation with an active split: the command
			// under test then replaces rollout targets that are serving traffic
			sc.Targets = append(sc.Targets, TargetSpec{Addr: "oldr0:80"})
			op.Ops = append(op.Ops, Op{Kind: "rollout_deploy", Service: "web", Targets: []string{"oldr0:80"}, DeployTimeout: 5 * time.Second, DrainTimeout: 2 * time.Second, Tag: "old-rollout"})
			op.Ops = append(op.Ops, Op{Kind: "rollout_set", Service: "web", Percent: 100, Allow: []string{"vip"}})
		}
	}
	k := 1 + rng.Intn(4)
	var names []string
	// one scenario class per run
	class := rng.Intn(6)
	for j := 0; j < k; j++ {
		addr := fmt.Sprintf("new%d:80", j)
		names = append(names, addr)
		ts := TargetSpec{Addr: addr}
		special := j == rng.Intn(k) || rng.Intn(3) == 0
		switch {
		case class == 0: // all healthy at once
		case class == 1 && special: // never healthy
			ts.Phases = []Phase{neverHealthy(rng, sc.HC.Timeout)}
		case class == 2 && special: // first 2xx lands around the deadline
			off := time.Duration(rng.Intn(5)-2) * interval / 2
			d := deployTimeout + off + time.Duration(rng.Intn(200)-100)*time.Millisecond
			if d < 0 {
				d = 10 * time.Millisecond
			}
			ts.Phases = healthyAfter(rng, d, sc.HC.Timeout)
		case class == 3 && special: // healthy after a few failures, well in time
			ts.Phases = healthyAfter(rng, time.Duration(1+rng.Intn(3))*interval/2+time.Duration(rng.Intn(50))*time.Millisecond, sc.HC.Timeout)
		case class == 4 && special: // flapping: ok, then failing, then ok
			a := time.Duration(rng.Intn(3)) * interval
			ts.Phases = []Phase{{Until: a + 10*time.Millisecond, Kind: "status", Status: 503}, {Until: a + interval, Kind: "ok"}, {Until: a + 3*interval, Kind: "status", Status: 500}, {Kind: "ok"}}
		case class == 5 && special: // 1xx/3xx/4xx are not success; slow but in time is
			if rng.Intn(2) == 0 {
				ts.Phases = []Phase{{Kind: "status", Status: pick(rng, 301, 302, 404, 401, 199)}}
			} else {
				ts.Phases = []Phase{{Kind: "slow", Delay: sc.HC.Timeout / 2}}
			}
		}
		sc.Targets = append(sc.Targets, ts)
	}
	cmd := Op{Kind: kind, Service: "web", Targets: names, DeployTimeout: deployTimeout, DrainTimeout: 2 * time.Second, Tag: "under-test"}
	if hasOld {
		cmd.Delay = time.Duration(50+rng.Intn(300)) * time.Millisecond
	}
	op.Ops = append(op.Ops, cmd)
	lateExtra := time.Duration(0)
	if hasOld && (class == 1 || class == 2) && rng.Intn(3) == 0 && cmd.Delay+deployTimeout-2*interval > 150*time.Millisecond {
		// every previous target fails its probes for a while around the moment
		// the (probably failing) command gives up, and recovers afterwards: the
		// service must come back on its previous targets
		from := cmd.Delay + deployTimeout - 2*interval - 50*time.Millisecond
		to := cmd.Delay + deployTimeout + interval/2 + 50*time.Millisecond
		for j := range sc.Targets {
			if strings.HasPrefix(sc.Targets[j].Addr, "old") && !strings.HasPrefix(sc.Targets[j].Addr, "oldr") {
				sc.Targets[j].AbsBase = true
				sc.Targets[j].Phases = []Phase{{Until: from, Kind: "ok"}, {Until: to, Kind: "status", Status: pick(rng, 500, 503)}, {Kind: "ok"}}
			}
		}
		excuse := to + 2*(interval+sc.HC.Timeout) + 100*time.Millisecond
		sc.Params = map[string]int{"old_flap_excuse_ms": int(excuse / time.Millisecond)}
		lateExtra = 3*(interval+sc.HC.Timeout) + 400*time.Millisecond
	}
	if kind == "rollout_deploy" {
		op.Ops = append(op.Ops, Op{Kind: "rollout_set", Service: "web", Percent: pick(rng, 50, 100), Allow: []string{"vip"}})
	}
	sc.Actors = append(sc.Actors, op)
	nc := 2 + rng.Intn(5)
	for c := 0; c < nc; c++ {
		a := ActorSpec{Name: fmt.Sprintf("client%d", c)}
		nr := 3 + rng.Intn(6)
		for i := 0; i < nr; i++ {
			o := Op{Kind: "request", Path: "/x", Delay: time.Duration(rng.Intn(int(deployTimeout/time.Millisecond)/2+100)) * time.Millisecond}
			if rng.Intn(3) == 0 {
				alignOp(rng, &o, c01Triggers, 8)
			}
			if kind == "rollout_deploy" && rng.Intn(2) == 0 {
				o.Cookie = "kamal-rollout=" + pick(rng, "vip", "a", "b", "c")
			}
			o.Sim = simDirective(time.Duration(rng.Intn(3))*20*time.Millisecond, 0, "")
			a.Ops = append(a.Ops, o)
		}
		// a few requests several probe intervals after the command
		a.Ops = append(a.Ops, Op{Kind: "request", Path: "/late", Delay: deployTimeout + 3*interval + lateExtra})
		sc.Actors = append(sc.Actors, a)
	}
	return sc
}

var c01Triggers = []string{"deploy.probing", "hc.report", "health.completed", "health.updated", "lb.stateChanged", "lb.waitDone", "target.waitTimeout",
	"deploy.healthy", "deploy.beforeUpdate", "deploy.beforeInstall", "router.install", "deploy.done", "tgt.probe"}

func neverHealthy(rng *rand.Rand, hcTimeout time.Duration) Phase {
	switch rng.Intn(7) {
	case 5:
		return Phase{Kind: "cutbody", Status: pick(rng, 500, 503, 404)}
	case 6:
		return Phase{Kind: "stallbody", Status: pick(rng, 500, 503, 404)}
	case 0:
		return Phase{Kind: "refuse"}
	case 1:
		return Phase{Kind: "status", Status: pick(rng, 500, 503, 404, 302, 199, 300)}
	case 2:
		return Phase{Kind: "hang"}
	case 3:
		return Phase{Kind: "slow", Delay: hcTimeout + 50*time.Millisecond}
	}
	return Phase{Kind: "reset"}
}

func is2xx(s int) bool { return s >= 200 && s <= 299 }

func checkC01(r *RunResult) []Violation {
	var out []Violation
	w := r.W
	var cmd *CmdResult
	for _, c := range w.Cmds {
		if c.Op.Tag == "under-test" {
			cmd = c
		}
	}
	if cmd == nil || cmd.Call == 0 {
		return out
	}
	gen := map[string]bool{}
	for _, t := range cmd.Op.Targets {
		gen[t] = true
	}
	old := map[string]bool{}
	for _, c := range w.Cmds {
		if c != cmd && (c.Op.Kind == "deploy" || c.Op.Tag == "old-rollout") {
			for _, t := range c.Op.Targets {
				old[t] = true
			}
		}
	}
	// first 2xx probe response per target of the generation
	first2xx := map[string]*Event{}
	for i := range r.H.Events {
		e := &r.H.Events[i]
		if e.Kind == "tgt.proberesp" && gen[e.Target] && is2xx(e.Status) && first2xx[e.Target] == nil {
			first2xx[e.Target] = e
		}
		if e.Kind == "tgt.probe" && gen[e.Target] && e.Info != "ok" {
			r.Probes["non2xx_probe"]++
		}
		if e.Kind == "tgt.proberesp" && gen[e.Target] && !is2xx(e.Status) {
			r.Probes["non2xx_probe"]++
		}
	}
	// (i) a client request reaching a target of the generation needs every target's 2xx before it
	for i := range r.H.Events {
		e := &r.H.Events[i]
		// request bytes on the wire to a new target (net.write) or a request read by it (tgt.recv)
		if (e.Kind != "tgt.recv" && e.Kind != "net.write") || !gen[e.Target] {
			continue
		}
		for t := range gen {
			f := first2xx[t]
			if f == nil || f.Seq > e.Seq {
				out = append(out, Violation{Prop: "C01", Clause: "traffic-before-all-healthy",
					Msg: fmt.Sprintf("client request %s%s reached new target %s at #%d (t=%v) but target %s had not answered any probe with 2xx by then", e.Req, e.Obj, e.Target, e.Seq, e.T, t)})
				break
			}
		}
	}
	z := slack(r.Sc)
	if cmd.Ret == 0 {
		// the command must report success or failure by deploy timeout + drain timeout
		if limit := cmd.CallT + cmd.Op.DeployTimeout + cmd.Op.DrainTimeout + z; r.Virtual > limit+time.Second {
			out = append(out, Violation{Prop: "C01", Clause: "command-did-not-report", Msg: fmt.Sprintf("%s %v was called at t=%v with deploy timeout %v and had neither succeeded nor reported failure when the run ended at t=%v", cmd.Op.Kind, cmd.Op.Targets, cmd.CallT, cmd.Op.DeployTimeout, r.Virtual)})
		}
		return out
	}
	deadline := cmd.CallT + cmd.Op.DeployTimeout
	failed := cmd.Err != nil
	if failed && !strings.Contains(cmd.Err.Error(), "failed to become healthy") {
		out = append(out, Violation{Prop: "C01", Clause: "unexpected-error", Msg: fmt.Sprintf("command returned unexpected error %q", cmd.Err)})
	}
	// (ii) some target without a 2xx by the deadline (+slack) => the command must fail
	late := ""
	for t := range gen {
		if f := first2xx[t]; f == nil || f.T > deadline+z {
			late = t
		}
	}
	if late != "" && !failed {
		out = append(out, Violation{Prop: "C01", Clause: "success-without-all-healthy",
			Msg: fmt.Sprintf("command returned success at #%d (t=%v) although target %s produced no 2xx probe response by the deploy deadline t=%v", cmd.Ret, cmd.RetT, late, deadline)})
	}
	// (iii) stall-free: everything healthy well before the deadline => must succeed
	if r.Sc.Sched.StallMax == 0 && failed {
		allEarly := true
		for t := range gen {
			if f := first2xx[t]; f == nil || f.T > deadline-z-10*time.Millisecond {
				allEarly = false
			}
		}
		if allEarly {
			out = append(out, Violation{Prop: "C01", Clause: "failure-although-all-healthy-in-time",
				Msg: fmt.Sprintf("command failed (%v) although every target had answered 2xx well before the deadline t=%v", cmd.Err, deadline)})
		}
	}
	if failed {
		// none of the new targets ever receives a client request (already covered
		// by (i) only if a 2xx is missing; here: never, even if all became healthy late)
		for i := range r.H.Events {
			e := &r.H.Events[i]
			if (e.Kind == "tgt.recv" || e.Kind == "net.write") && gen[e.Target] {
				out = append(out, Violation{Prop: "C01", Clause: "failed-deploy-target-got-traffic",
					Msg: fmt.Sprintf("deploy failed but its target %s received client request %s at #%d", e.Target, e.Req, e.Seq)})
				break
			}
		}
		// the service keeps answering from what it had before
		for _, q := range w.Responses {
			if q.Ret == 0 || q.Call < cmd.Call {
				continue
			}
			if ex := time.Duration(r.Sc.Params["old_flap_excuse_ms"]) * time.Millisecond; ex > 0 && q.Status == 503 && q.CallT < ex+z {
				continue // the previous targets were scripted to fail their probes around then
			}
			if len(old) > 0 {
				if q.Status != 200 || !old[q.ServedBy] {
					out = append(out, Violation{Prop: "C01", Clause: "old-targets-not-serving-after-failed-deploy",
						Msg: fmt.Sprintf("request %s (#%d..#%d) during/after a failed deploy got status %d from %q; expected 200 from the previous targets", q.ReqID, q.Call, q.Ret, q.Status, q.ServedBy)})
					break
				}
			} else if q.Status != 404 {
				out = append(out, Violation{Prop: "C01", Clause: "new-service-present-after-failed-deploy",
					Msg: fmt.Sprintf("request %s got status %d after the first deploy of the service failed; expected 404", q.ReqID, q.Status)})
				break
			}
		}
	}
	for _, q := range w.Responses {
		if q.Call > cmd.Call && q.Call < cmd.Ret {
			r.Probes["req_during_command"]++
		}
	}
	if failed {
		r.Probes["deploy_failed"]++
	} else {
		r.Probes["deploy_succeeded"]++
	}
	return out
}
