package sim

import (
	"fmt"
	"math/rand"
	"strings"
	"time"
)

// C15 — target failures become well-formed 502/504 responses, never hangs.
// Server mode: a real http.Server runs in front of the handler chain and the
// client speaks raw HTTP/1.1 over the in-memory network, so what is judged is
// the byte stream a client sees.

func init() {
	Register(&Prop{
		ID:    "C15",
		Gen:   genC15,
		Check: checkC15,
		Nontrivial: func(r *RunResult) bool {
			return r.Probes["faults_judged"] > 0
		},
	})
}

type faultClass struct {
	name   string
	dial   string // dial-level fault
	sim    string // X-Sim directive (may contain %T for the target timeout)
	expect string // 502 | 504 | 200 | cut | 504-or-200
	after  string // "" = at once, "T" = at the target timeout, "slow" = excluded from promptness
}

var c15Faults = []faultClass{
	{name: "dial-refused", dial: "refuse", expect: "502"},
	{name: "dial-hang", dial: "hang", expect: "504", after: "slow"},
	{name: "close-before-status-line", sim: "fault=close_before", expect: "502"},
	{name: "garbage", sim: "fault=garbage", expect: "502"},
	{name: "close-mid-headers", sim: "fault=close_mid_headers", expect: "502"},
	{name: "close-after-status-line", sim: "fault=close_after_status_line", expect: "502"},
	{name: "close-after-a-complete-header-line", sim: "fault=close_after_header_line", expect: "502"},
	{name: "silence-just-under-timeout", sim: "fault=stall_headers:%T-", expect: "200", after: "T-"},
	{name: "silence-past-timeout", sim: "fault=stall_headers:%T+", expect: "504", after: "T"},
	{name: "silence-exactly-timeout", sim: "fault=stall_headers:%T", expect: "504-or-200", after: "T"},
	{name: "never-answers", sim: "mode=hang", expect: "504", after: "T"},
	{name: "close-mid-body", sim: "fault=close_mid_body", expect: "cut"},
	{name: "reset-mid-body", sim: "fault=reset_mid_body", expect: "cut"},
	{name: "close-inside-chunk", sim: "fault=close_in_chunk;chunks=3", expect: "cut"},
	{name: "stall-mid-body", sim: "fault=stall_mid_body:300ms", expect: "200"},
}

func genC15(seed int64, tier string) *Scenario {
	rng := rand.New(rand.NewSource(seed))
	sc := &Scenario{Prop: "C15", Seed: seed, Server: true, Params: map[string]int{}}
	sc.Sched = genSched(rng, tier, false)
	sc.Sched.MaxSteps = 30000
	T := time.Duration(pick(rng, 600, 1000, 1500)) * time.Millisecond
	sc.HC = HCKnobs{Interval: 30 * time.Second, Timeout: time.Second, TargetTimeout: T}
	sc.Params["T_ms"] = int(T / time.Millisecond)
	svc := &SvcOpts{}
	if rng.Intn(2) == 0 {
		svc.ErrorPages = "good"
		sc.Pages = map[string]string{"404.html": "CUSTOM404END"}
		if rng.Intn(2) == 0 {
			sc.Pages["502.html"] = "<html>CUSTOM502END</html>"
		}
		if rng.Intn(2) == 0 {
			sc.Pages["504.html"] = "<html>CUSTOM504END</html>"
		}
	}
	tgt := &TgtOpts{BufferRequests: rng.Intn(2) == 0, BufferResponses: rng.Intn(2) == 0, MaxMem: int64(pick(rng, 16, 4096))}
	main := ActorSpec{Name: "main"}
	main.Ops = append(main.Ops, Op{Kind: "deploy", Service: "web", Targets: []string{"tgt:80"}, DeployTimeout: 3 * time.Second, DrainTimeout: time.Second, Svc: svc, Tgt: tgt})
	ts := TargetSpec{Addr: "tgt:80"}
	reqN := 0
	addReq := func(fc *faultClass) {
		o := Op{Kind: "request", Path: fmt.Sprintf("/r%d", reqN), Delay: time.Duration(10+rng.Intn(50)) * time.Millisecond}
		// body sizes on both sides of the buffers between target and client (net/http's 2 KiB
		// chunk writer and 4 KiB connection buffer, the 32 KiB copy buffer, the memory limit
		// of the response buffer): what a cut leaves behind depends on how much was through
		size := 40 + rng.Intn(200)
		switch rng.Intn(3) {
		case 1:
			size = 3000 + rng.Intn(9000)
		case 2:
			size = 20000 + rng.Intn(50000)
		}
		sim := fmt.Sprintf("size=%d;close;", size)
		dial := ""
		if fc != nil {
			o.Tag = "fault:" + fc.name
			dial = fc.dial
			s := fc.sim
			s = strings.ReplaceAll(s, "%T-", (T - 150*time.Millisecond).String())
			s = strings.ReplaceAll(s, "%T+", (T + 150*time.Millisecond).String())
			s = strings.ReplaceAll(s, "%T", T.String())
			sim += s
		} else {
			o.Tag = "good"
		}
		if rng.Intn(3) == 0 {
			o.Method, o.Body = "POST", strings.Repeat("b", 1+rng.Intn(100))
		}
		o.Sim = sim
		ts.DialFaults = append(ts.DialFaults, dial)
		main.Ops = append(main.Ops, o)
		reqN++
	}
	addReq(nil)
	nf := 1 + rng.Intn(3)
	for i := 0; i < nf; i++ {
		fc := c15Faults[rng.Intn(len(c15Faults))]
		addReq(&fc)
		if rng.Intn(2) == 0 {
			addReq(nil)
		}
	}
	addReq(nil)
	sc.Targets = append(sc.Targets, ts)
	// nothing is left in flight: a pause has nothing to wait for
	main.Ops = append(main.Ops, Op{Kind: "pause", Service: "web", DrainTimeout: 5 * time.Second, PauseTimeout: time.Second, Tag: "drain-probe", Delay: 20 * time.Millisecond})
	main.Ops = append(main.Ops, Op{Kind: "resume", Service: "web"})
	addReqFinal := Op{Kind: "request", Path: "/final", Sim: "size=10;close;", Tag: "good"}
	main.Ops = append(main.Ops, addReqFinal)
	sc.Actors = append(sc.Actors, main)
	return sc
}

func builtinPage(body string, status int) bool {
	return strings.Contains(body, fmt.Sprintf("<title>%d — ", status)) && strings.HasSuffix(strings.TrimSpace(body), "</html>")
}

func checkErrorPage(sc *Scenario, custom bool, q *Response, status int) string {
	body := string(q.Body)
	want, has := sc.Pages[fmt.Sprintf("%d.html", status)]
	if custom && has {
		if strings.TrimSpace(body) != strings.TrimSpace(want) {
			return fmt.Sprintf("expected the service's custom %d page, got %q", status, trunc(body, 80))
		}
	} else if !builtinPage(body, status) {
		return fmt.Sprintf("expected the built-in %d page, got %q", status, trunc(body, 80))
	}
	if ct := q.Header.Get("Content-Type"); !strings.HasPrefix(ct, "text/html") {
		return fmt.Sprintf("error page has content type %q", ct)
	}
	return ""
}

func checkC15(r *RunResult) []Violation {
	var out []Violation
	w := r.W
	z := slack(r.Sc)
	T := time.Duration(r.Sc.Params["T_ms"]) * time.Millisecond
	custom := false
	for _, c := range w.Cmds {
		if c.Op.Kind == "deploy" && c.Op.Svc != nil && c.Op.Svc.ErrorPages == "good" {
			custom = true
		}
		if c.Op.Kind == "deploy" && (c.Err != nil || c.Ret == 0) {
			return out
		}
	}
	add := func(clause, sig, msg string) {
		out = append(out, Violation{Prop: "C15", Clause: clause, Sig: sig, Msg: msg})
	}
	for _, q := range w.Responses {
		tag := q.Op.Tag
		if q.Ret == 0 {
			if r.Budget == "" {
				add("request-hangs", tag, fmt.Sprintf("request %s (%s) never got an answer", q.ReqID, tag))
			}
			continue
		}
		el := q.RetT - q.CallT
		if tag == "good" {
			if q.Status != 200 || !q.Clean {
				add("good-request-not-served", "", fmt.Sprintf("fault-free request %s got status %d err=%q (proxy did not keep serving)", q.ReqID, q.Status, q.Err))
			}
			continue
		}
		if !strings.HasPrefix(tag, "fault:") {
			continue
		}
		name := tag[6:]
		var fc faultClass
		for _, f := range c15Faults {
			if f.name == name {
				fc = f
			}
		}
		r.Probes["faults_judged"]++
		r.Probes["case:"+name]++
		wantSize := 0
		fmt.Sscanf(q.Op.Sim, "size=%d", &wantSize)
		complete := q.Clean && q.Status == 200 && len(q.Body) == wantSize
		switch fc.expect {
		case "502", "504":
			st := 502
			if fc.expect == "504" {
				st = 504
			}
			if !q.Clean || q.Status != st {
				add("wrong-response-for-fault", name, fmt.Sprintf("fault %s: expected a complete %d response, got status %d clean=%v err=%q", name, st, q.Status, q.Clean, q.Err))
				break
			}
			if msg := checkErrorPage(r.Sc, custom, q, st); msg != "" {
				add("wrong-error-page", name, fmt.Sprintf("fault %s: %s", name, msg))
			}
			switch fc.after {
			case "":
				if el > z {
					add("error-not-prompt", name, fmt.Sprintf("fault %s: the %d came %v after the request", name, st, el))
				}
			case "T":
				if el < T-z || el > T+z {
					add("timeout-not-at-target-timeout", name, fmt.Sprintf("fault %s: the %d came after %v; target timeout is %v", name, st, el, T))
				}
			}
		case "200":
			if !complete {
				add("slow-but-valid-response-not-delivered", name, fmt.Sprintf("fault %s: expected the complete 200, got status %d clean=%v len=%d/%d err=%q", name, q.Status, q.Clean, len(q.Body), wantSize, q.Err))
			}
		case "504-or-200":
			if !(complete || (q.Clean && q.Status == 504)) {
				add("wrong-response-for-fault", name, fmt.Sprintf("fault %s: got status %d clean=%v err=%q", name, q.Status, q.Clean, q.Err))
			}
		case "cut":
			if complete {
				add("truncated-response-presented-as-complete", name, fmt.Sprintf("fault %s: the target's response was cut short but the client received a clean, complete 200 of %d bytes", name, len(q.Body)))
			} else if q.Clean && q.Status == 200 && len(q.Body) != wantSize {
				// clean framing with a shorter body = presented as complete
				add("truncated-response-presented-as-complete", name, fmt.Sprintf("fault %s: the client received a well-formed 200 with %d of %d bytes", name, len(q.Body), wantSize))
			}
		}
	}
	for _, c := range w.Cmds {
		if c.Op.Tag == "drain-probe" && c.Ret != 0 {
			if c.RetT-c.CallT > z {
				add("failed-request-left-something-behind", "", fmt.Sprintf("after the faults a pause (drain timeout %v) took %v to return: a finished request is still counted as in flight", c.Op.DrainTimeout, c.RetT-c.CallT))
			}
		}
	}
	return out
}
