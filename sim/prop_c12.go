package sim

import (
	"fmt"
	"math/rand"
	"os"
	"path/filepath"
	"sort"
	"strings"
	"time"

	"github.com/basecamp/kamal-proxy/internal/server"
)

// C12 — the state file is always one complete, current snapshot.
// Crash points are the yield points inside the snapshot write: at each of them
// the file is copied as a killed process would leave it, and a fresh router is
// restored from the copy.

func init() {
	Register(&Prop{
		ID:    "C12",
		Gen:   genC12,
		Post:  postC12,
		Check: checkC12,
		Nontrivial: func(r *RunResult) bool {
			return r.Probes["crash_inside_write"] > 0 || r.Probes["writers_interleaved"] > 0
		},
	})
}

func genC12(seed int64, tier string) *Scenario {
	rng := rand.New(rand.NewSource(seed))
	sc := &Scenario{Prop: "C12", Seed: seed, Params: map[string]int{"crash": 1}}
	sc.Sched = genSched(rng, tier, false)
	// the snapshot yields are the crash points: never switch them off
	var keep []string
	for _, d := range sc.Sched.Disabled {
		if !strings.HasPrefix(d, "snapshot.") {
			keep = append(keep, d)
		}
	}
	sc.Sched.Disabled = keep
	sc.Sched.MaxSteps = 30000
	sc.HC = HCKnobs{Interval: 2 * time.Second, Timeout: 500 * time.Millisecond, TargetTimeout: 2 * time.Second}
	nops := 1 + rng.Intn(2)
	tn := 0
	for k := 0; k < nops; k++ {
		act := ActorSpec{Name: fmt.Sprintf("op%d", k)}
		svcs := []string{fmt.Sprintf("s%da", k), fmt.Sprintf("s%db", k)}
		deployed := map[string]bool{}
		targets := func(n int) []string {
			var out []string
			for j := 0; j < n; j++ {
				tn++
				addr := fmt.Sprintf("t%d:80", tn)
				sc.Targets = append(sc.Targets, TargetSpec{Addr: addr})
				out = append(out, addr)
			}
			return out
		}
		deploy := func(s string) Op {
			deployed[s] = true
			return Op{Kind: "deploy", Service: s, Hosts: []string{s + ".test"}, Paths: pick(rng, nil, []string{"/app"}), Targets: targets(1 + rng.Intn(2)), DeployTimeout: 2 * time.Second, DrainTimeout: 200 * time.Millisecond}
		}
		act.Ops = append(act.Ops, deploy(svcs[0]))
		n := 2 + rng.Intn(6)
		for i := 0; i < n; i++ {
			s := svcs[rng.Intn(2)]
			var o Op
			if !deployed[s] {
				o = deploy(s)
			} else {
				switch rng.Intn(9) {
				case 0, 1:
					o = deploy(s)
				case 2:
					o = Op{Kind: "rollout_deploy", Service: s, Targets: targets(1), DeployTimeout: 2 * time.Second, DrainTimeout: 200 * time.Millisecond}
				case 3:
					o = Op{Kind: "rollout_set", Service: s, Percent: rng.Intn(101), Allow: pick(rng, nil, []string{"vip"})}
				case 4:
					o = Op{Kind: "rollout_stop", Service: s}
				case 5:
					o = Op{Kind: "pause", Service: s, DrainTimeout: 200 * time.Millisecond, PauseTimeout: time.Duration(1+rng.Intn(5)) * time.Second}
				case 6:
					o = Op{Kind: "stop", Service: s, DrainTimeout: 200 * time.Millisecond, Message: pick(rng, "", "down", "back <soon>")}
				case 7:
					o = Op{Kind: "resume", Service: s}
				case 8:
					o = Op{Kind: "remove", Service: s}
					deployed[s] = false
				}
			}
			if rng.Intn(2) == 0 {
				alignOp(rng, &o, []string{"snapshot.lock", "snapshot.begin", "snapshot.beforeCreate", "snapshot.created", "snapshot.beforeRename", "snapshot.written", "router.install", "cmd.found", "op.deploy"}, 10)
				o.Delay = 200 * time.Millisecond
			} else {
				o.Delay = time.Duration(rng.Intn(30)) * time.Millisecond
			}
			act.Ops = append(act.Ops, o)
		}
		sc.Actors = append(sc.Actors, act)
	}
	return sc
}

type crashResult struct {
	CrashCopy
	RestoreErr string
	Listed     []string
	Parsed     []SvcState
	ParseErr   string
	// continuation after the restart: one service is removed, then the file is read again
	Removed    string
	RemoveErr  string
	AfterNames []string
	AfterErr   string
}

// postC12 restores a fresh router from every crash copy (in the bubble, hooks off).
func postC12(w *World) {
	for i, cc := range w.Crashes {
		cr := crashResult{CrashCopy: cc}
		// what the killed process leaves behind: the state file (if any) and its
		// temporary / backup siblings, in a directory of their own
		dir := filepath.Join(w.Dir, fmt.Sprintf("crash-%d", i))
		os.MkdirAll(dir, 0o755)
		path := filepath.Join(dir, "state.json")
		for suffix, c := range cc.Others {
			os.WriteFile(path+suffix, c, 0o644)
		}
		if !cc.Missing {
			if st, err := ParseState(cc.Content); err != nil {
				cr.ParseErr = err.Error()
			} else {
				cr.Parsed = st
			}
			os.WriteFile(path, cc.Content, 0o644)
			func() {
				defer func() {
					if p := recover(); p != nil {
						cr.RestoreErr = fmt.Sprintf("PANIC: %v", p)
					}
				}()
				rt := server.NewRouter(path)
				if err := rt.RestoreLastSavedState(); err != nil {
					cr.RestoreErr = err.Error()
					return
				}
				for name := range rt.ListActiveServices() {
					cr.Listed = append(cr.Listed, name)
				}
				sort.Strings(cr.Listed)
				// The restarted proxy goes on taking commands: remove one service
				// and read the file again. (Only for a sample of the copies: each
				// continuation costs a restore.)
				if len(cr.Listed) > 0 && (len(cc.Others) > 0 || i%4 == 0) {
					cr.Removed = cr.Listed[0]
					if err := rt.RemoveService(cr.Removed); err != nil {
						cr.RemoveErr = err.Error()
					}
					if b, err := os.ReadFile(path); err != nil {
						cr.AfterErr = err.Error()
					} else if st, err := ParseState(b); err != nil {
						cr.AfterErr = err.Error()
					} else {
						for _, sv := range st {
							cr.AfterNames = append(cr.AfterNames, sv.Name)
						}
						sort.Strings(cr.AfterNames)
					}
				}
				for _, name := range cr.Listed {
					if name != cr.Removed {
						rt.RemoveService(name) // stops the restored services' health checks
					}
				}
			}()
		}
		os.RemoveAll(dir)
		w.CrashResults = append(w.CrashResults, cr)
	}
}

func checkC12(r *RunResult) []Violation {
	var out []Violation
	w := r.W
	// per-service timeline of model states
	type span struct {
		call, ret int
		after     string // canonical state after the command (if it succeeded), else unchanged
	}
	timeline := map[string][]span{}
	model := cfgModel{}
	for _, c := range w.Cmds { // in call order; one operator per service => sequential per service
		before := canonSvc(model[c.Op.Service])
		if c.Ret != 0 && c.Err == nil && c.Panic == "" {
			model.apply(c.Op)
		}
		after := canonSvc(model[c.Op.Service])
		if c.Ret == 0 { // still running at the end: it may or may not have taken effect
			m2 := model.clone()
			m2.apply(c.Op)
			after = canonSvc(m2[c.Op.Service])
		}
		_ = before
		timeline[c.Op.Service] = append(timeline[c.Op.Service], span{c.Call, c.Ret, after})
	}
	// allowed states of service s for a snapshot observed at q whose content may
	// have been collected any time since t0
	allowed := func(s string, t0, q int) map[string]bool {
		set := map[string]bool{}
		cur := "<absent>"
		for _, sp := range timeline[s] {
			if sp.ret != 0 && sp.ret < t0 {
				cur = sp.after
				continue
			}
			// command overlaps [t0, q] or is in progress
			if sp.call < q {
				set[cur] = true
				set[sp.after] = true
				if sp.ret != 0 && sp.ret < q {
					cur = sp.after
				}
			}
		}
		set[cur] = true
		return set
	}
	inProgressSince := func(q int) int {
		t0 := q
		for _, c := range w.Cmds {
			if c.Call < q && (c.Ret == 0 || c.Ret > q) && c.Call < t0 {
				t0 = c.Call
			}
		}
		return t0
	}
	writers := 0
	reached := false
	for _, cr := range w.CrashResults {
		reached = true
		if strings.HasPrefix(cr.Point, "fs@") {
			r.Probes["crash_before_a_file_operation"]++
		}
		if cr.Point == "snapshot.created" || cr.Point == "snapshot.beforeRename" || cr.Point == "snapshot.written" {
			r.Probes["crash_inside_write"]++
		}
		if cr.Point == "snapshot.begin" {
			writers++
		} else if cr.Point == "cmd.ret" {
			writers = 0
		}
		if writers > 1 {
			r.Probes["writers_interleaved"]++
		}
		t0 := inProgressSince(cr.Seq)
		quiescent := cr.Point == "cmd.ret" && t0 == cr.Seq
		where := fmt.Sprintf("crash point %s at #%d", cr.Point, cr.Seq)
		var got map[string]string
		switch {
		case cr.Missing:
			got = map[string]string{}
		case cr.ParseErr != "" || cr.RestoreErr != "":
			// the next start restores nothing (or fails)
			anyService := false
			for s := range timeline {
				for st := range allowed(s, t0, cr.Seq) {
					if st != "<absent>" {
						anyService = true
					}
				}
			}
			_ = anyService
			out = append(out, Violation{Prop: "C12", Clause: "state-file-not-a-complete-snapshot", Sig: cr.Point,
				Msg: fmt.Sprintf("%s: the state file (%d bytes) cannot be restored: %s%s", where, len(cr.Content), cr.ParseErr, cr.RestoreErr)})
			continue
		default:
			got = canonAll(cr.Parsed)
		}
		for s := range timeline {
			g, ok := got[s]
			if !ok {
				g = "<absent>"
			}
			al := allowed(s, t0, cr.Seq)
			if !al[g] {
				clause := "state-file-neither-before-nor-after"
				if quiescent {
					clause = "state-file-stale-after-commands-returned"
				}
				out = append(out, Violation{Prop: "C12", Clause: clause, Sig: cr.Point,
					Msg: fmt.Sprintf("%s: the file describes service %s as %s; allowed: %v", where, s, g, sortedKeys(al))})
				break
			}
		}
		if cr.Removed != "" {
			r.Probes["restart_then_command"]++
			if len(cr.Others) > 0 {
				r.Probes["restart_with_leftover_files"]++
			}
			want := []string{}
			for _, n := range cr.Listed {
				if n != cr.Removed {
					want = append(want, n)
				}
			}
			if cr.RemoveErr != "" || cr.AfterErr != "" || strings.Join(cr.AfterNames, ",") != strings.Join(want, ",") {
				out = append(out, Violation{Prop: "C12", Clause: "command-after-restart-not-persisted", Sig: cr.Point,
					Msg: fmt.Sprintf("%s (left behind besides the state file: %v): the proxy restarted from it listed %v; `remove %s` then returned %q, and the state file afterwards lists %v %s; expected %v",
						where, sortedKeys(cr.Others), cr.Listed, cr.Removed, cr.RemoveErr, cr.AfterNames, cr.AfterErr, want)})
			}
		}
		if len(cr.Listed) != len(got) && cr.RestoreErr == "" && !cr.Missing {
			out = append(out, Violation{Prop: "C12", Clause: "restore-lost-services", Sig: cr.Point,
				Msg: fmt.Sprintf("%s: the file holds %d services but the restored router lists %d", where, len(got), len(cr.Listed))})
		}
	}
	if !reached && len(w.Cmds) > 0 {
		r.Probes["no_crash_point_reached"]++
	}
	return out
}
