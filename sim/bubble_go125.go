//go:build go1.25

package sim

import (
	"testing"
	"testing/synctest"
)

// runBubble runs f inside a synctest bubble (Go >= 1.25 API).
func runBubble(t *testing.T, f func()) {
	synctest.Test(t, func(*testing.T) { f() })
}
