package sim

import (
	"fmt"
	"math/rand"
	"time"
)

// ---------------------------------------------------------------------------
// Shared scenario generation helpers (swarm style: every knob varies per run).
// ---------------------------------------------------------------------------

// Yield points that a run may switch off (swarm). Only points in the middle
// of sequential code qualify: the first yield of every spawned goroutine and
// the first yield after every timer or network wait stay on, so that two
// goroutines never run on from the same instant without the scheduler between
// them.
var allYieldPoints = []string{
	"router.routed", "service.gate", "service.afterGate", "lb.claim", "service.claimed", "lb.claimed",
	"target.send", "deploy.found", "deploy.healthy", "deploy.beforeUpdate",
	"deploy.beforeInstall", "router.install", "deploy.beforeDrain", "deploy.beforeDispose", "deploy.done",
	"drain.marked", "drain.snapshot", "drain.end", "lb.waitDone",
	"lb.stateChanged", "health.completed", "health.updated",
	"service.beforeDrain", "cmd.found", "snapshot.begin", "snapshot.beforeCreate", "snapshot.created",
	"snapshot.written", "snapshot.beforeRename",
}

// genSched draws the scheduling policy. stalls: whether virtual time may
// advance while tasks are parked (never for exact-time oracles).
func genSched(rng *rand.Rand, tier string, stalls bool) SchedKnobs {
	k := SchedKnobs{MaxSteps: 4000, MaxVirtual: 10 * time.Minute}
	switch rng.Intn(6) {
	case 0, 1:
		k.Policy = "uniform"
	case 2, 3:
		k.Policy = "sticky"
		k.PreemptP = []float64{0.02, 0.05, 0.1, 0.25, 0.5}[rng.Intn(5)]
	default:
		k.Policy = "pct"
		k.PCTDepth = rng.Intn(4)
	}
	// a random subset of yield points is switched off in a third of the runs
	if rng.Intn(3) == 0 {
		n := 1 + rng.Intn(8)
		for i := 0; i < n; i++ {
			k.Disabled = append(k.Disabled, allYieldPoints[rng.Intn(len(allYieldPoints))])
		}
	}
	k.AutoOff = rng.Intn(3) == 0                  // autoyield builds only: a third of the runs keep the coarser, hand-placed granularity
	k.AutoNested = !k.AutoOff && rng.Intn(2) == 0 // ... and a third also yield in front of acquisitions made under another lock
	if stalls && rng.Intn(3) == 0 {
		k.StallMax = 1 + rng.Intn(5)
		k.StallDelta = time.Duration(1+rng.Intn(20)) * time.Millisecond
		k.StallP = 0.01 + rng.Float64()*0.04
	}
	return k
}

func pick[T any](rng *rand.Rand, xs ...T) T { return xs[rng.Intn(len(xs))] }

func simDirective(delay time.Duration, size int, extra string) string {
	s := ""
	if delay > 0 {
		s += "delay=" + delay.String() + ";"
	}
	if size > 0 {
		s += fmt.Sprintf("size=%d;", size)
	}
	return s + extra
}

// healthyAfter returns probe phases: failing (in a random way) until d, then ok.
func healthyAfter(rng *rand.Rand, d time.Duration, hcTimeout time.Duration) []Phase {
	if d <= 0 {
		return nil
	}
	var bad Phase
	switch rng.Intn(7) {
	case 5:
		bad = Phase{Kind: "cutbody", Status: pick(rng, 500, 503, 404)}
	case 6:
		bad = Phase{Kind: "stallbody", Status: pick(rng, 500, 503, 404)}
	case 0:
		bad = Phase{Kind: "refuse"}
	case 1:
		bad = Phase{Kind: "status", Status: pick(rng, 500, 503, 404, 301, 199, 300)}
	case 2:
		bad = Phase{Kind: "hang"}
	case 3:
		bad = Phase{Kind: "slow", Delay: hcTimeout + oddMs(50, rng.Intn(100))}
	default:
		bad = Phase{Kind: "reset"}
	}
	bad.Until = d
	return []Phase{bad, {Kind: "ok"}}
}

// deadlineRace scripts a target so that its first 2xx probe answer comes with
// probe number k (about k intervals after the deploy began), returns a deploy
// timeout that expires 20 ms later, and arms a task hold that keeps the
// goroutine completing that probe descheduled, somewhere between the answer
// and the rotation update, until the timeout has fired: "the timer expires
// between two particular statements of another goroutine".
func deadlineRace(rng *rand.Rand, sc *Scenario, ts *TargetSpec, interval time.Duration) time.Duration {
	k := 1 + rng.Intn(2)
	ts.AbsBase = false
	ts.Phases = []Phase{{Until: time.Duration(k-1)*interval + interval/2, Kind: "status", Status: 503}, {Kind: "ok"}}
	sc.TaskHolds = append(sc.TaskHolds, TaskHold{Task: "hc:" + ts.Addr, Hold: Hold{
		At: pick(rng, "hc.report", "health.completed", "health.updated", "lb.stateChanged"), For: "target.waitTimeout", N: 1, Max: 200 * time.Millisecond}})
	return time.Duration(k)*interval + 20*time.Millisecond
}

// trigger points at which client arrivals are aligned with command steps.
var deployTriggers = []string{
	"deploy.probing", "lb.waitDone", "deploy.healthy", "deploy.beforeUpdate", "deploy.beforeInstall", "router.install",
	"snapshot.begin", "deploy.beforeDrain", "drain.begin", "drain.marked", "drain.snapshot", "drain.cancel", "drain.end",
	"deploy.beforeDispose", "deploy.done", "hc.report", "health.completed", "health.updated", "lb.stateChanged",
}

// alignOp makes the op start when a (randomly chosen) step of the n-th
// command happens, instead of at a wall-clock offset.
func alignOp(rng *rand.Rand, o *Op, triggers []string, maxN int) {
	o.After = triggers[rng.Intn(len(triggers))]
	o.AfterN = 1 + rng.Intn(maxInt(maxN, 1))
	o.Delay = 3*time.Second + oddMs(rng.Intn(100), rng.Intn(400))
}

// request-path yield points at which a request's goroutine can be held.
var requestHoldPoints = []string{"router.serve", "router.routed", "service.gate", "service.afterGate", "lb.claim", "service.claimed", "lb.claimed", "target.send"}

// holdOp adds a directed stall to a request: it is descheduled at a point of
// the request path until a step of a command has happened.
func holdOp(rng *rand.Rand, o *Op, until []string) {
	o.Hold = &Hold{At: requestHoldPoints[rng.Intn(len(requestHoldPoints))], For: until[rng.Intn(len(until))], N: 1 + rng.Intn(2), Max: time.Duration(500+rng.Intn(2500)) * time.Millisecond}
}

// lockHoldOp (second build only) moves a third of the holds in front of one of the lock
// acquisitions of the request path, whichever the code has there: the request is descheduled
// between two critical sections that no hand-placed hook separates. Used by the worlds whose
// oracles make no assumption about where a held request sits (C02, C03, C18); in the C07 and
// C17 worlds the timing clauses know the named points only (DESIGN §6, wave 6).
func lockHoldOp(rng *rand.Rand, o *Op) {
	if !AutoYield || o.Hold == nil || rng.Intn(3) != 0 {
		return
	}
	o.Hold.At = pick(rng, "lock@target.go:*", "lock@load_balancer.go:*", "lock@service.go:*", "lock@pause_controller.go:*", "lock@router.go:*")
	o.Hold.Skip = rng.Intn(3)
}

// addCensus appends an actor that waits until every command of the scenario
// has returned, lets three probe intervals pass, records what is installed
// (census) and then watches two more intervals. Oracle: checkOrphanProbes.
func addCensus(sc *Scenario) {
	total := 0
	for _, a := range sc.Actors {
		for _, o := range a.Ops {
			switch o.Kind {
			case "request", "sleep", "observe", "census", "certs", "probe_mode":
			default:
				total++
			}
		}
	}
	iv := sc.HC.Interval + sc.HC.Timeout
	sc.Actors = append(sc.Actors, ActorSpec{Name: "zcensus", Ops: []Op{
		{Kind: "sleep", After: "cmd.ret", AfterN: total, Delay: 60 * time.Second},
		{Kind: "sleep", Delay: 3 * iv},
		{Kind: "census", Tag: "census"},
		{Kind: "sleep", Delay: 5 * iv / 2},
	}})
}

// checkOrphanProbes: once every command has returned and things have settled,
// every target that is still probed belongs to a service that is installed.
func checkOrphanProbes(r *RunResult, prop string) []Violation {
	o := r.W.ObsByTag("census", "")
	if o == nil || o.StErr != "" {
		return nil
	}
	for _, c := range r.W.Cmds {
		if c.Ret == 0 || c.Ret > o.Seq {
			return nil // a command was still running: not quiescent
		}
	}
	installed := map[string]bool{}
	for _, s := range o.State {
		for _, t := range s.Active {
			installed[t] = true
		}
		for _, t := range s.Rollout {
			installed[t] = true
		}
	}
	r.Probes["census_taken"]++
	for i := range r.H.Events {
		e := &r.H.Events[i]
		if e.Seq > o.Seq && isProbeSend(e) && !installed[e.Target] {
			return []Violation{{Prop: prop, Clause: "probe-to-target-of-no-installed-service",
				Msg: fmt.Sprintf("every command had returned by #%d and the state file lists targets %v, but %s was still probed at #%d (t=%v): a health check was left running on behalf of nothing", o.Seq, sortedKeys(installed), e.Target, e.Seq, e.T)}}
		}
	}
	return nil
}
