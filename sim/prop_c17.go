package sim

import (
	"fmt"
	"math/rand"
	"time"
)

// C17 — commands return within their timeouts and leave no probes behind.
// Stall-free: the clock never advances while a task is parked (beyond the
// one-microsecond step tick), so elapsed virtual time is exact up to slack().

func init() {
	Register(&Prop{
		ID:    "C17",
		Gen:   genC17,
		Check: checkC17,
		Nontrivial: func(r *RunResult) bool {
			return r.Probes["timeout_expired"] > 0 || r.Probes["target_hung"] > 0
		},
	})
}

func genC17(seed int64, tier string) *Scenario {
	rng := rand.New(rand.NewSource(seed))
	sc := &Scenario{Prop: "C17", Seed: seed}
	sc.Sched = genSched(rng, tier, false)
	sc.Sched.MaxSteps = 30000
	interval := time.Duration(pick(rng, 100, 300, 1000)) * time.Millisecond
	sc.HC = HCKnobs{Interval: interval, Timeout: time.Duration(pick(rng, 100, 300, 700)) * time.Millisecond, TargetTimeout: 6 * time.Second}
	deployT := time.Duration(pick(rng, 500, 1000, 2500)) * time.Millisecond
	drainT := time.Duration(pick(rng, 300, 800, 2000)) * time.Millisecond
	op := ActorSpec{Name: "op"}
	newTargets := func(prefix string, n int, mode int) []string {
		var names []string
		for j := 0; j < n; j++ {
			addr := fmt.Sprintf("%s%d:80", prefix, j)
			names = append(names, addr)
			ts := TargetSpec{Addr: addr}
			switch mode {
			case 1: // one never healthy
				if j == 0 {
					ts.Phases = []Phase{neverHealthy(rng, sc.HC.Timeout)}
				}
			case 2: // healthy late but in time
				ts.Phases = healthyAfter(rng, time.Duration(rng.Intn(int(deployT/time.Millisecond)*2/3+1))*time.Millisecond, sc.HC.Timeout)
			case 4: // one never healthy, another healthy at first and failing again before the deadline
				if j == 0 {
					ts.Phases = []Phase{neverHealthy(rng, sc.HC.Timeout)}
				} else {
					ts.Phases = []Phase{{Until: time.Duration(50+rng.Intn(int(deployT/time.Millisecond)/2)) * time.Millisecond, Kind: "ok"}, {Kind: "status", Status: 500}}
				}
			case 3: // healthy too late
				if j == 0 {
					ts.Phases = healthyAfter(rng, deployT+time.Duration(50+rng.Intn(500))*time.Millisecond, sc.HC.Timeout)
				}
			}
			sc.Targets = append(sc.Targets, ts)
		}
		return names
	}
	g0 := newTargets("a", 1+rng.Intn(2), 0)
	op.Ops = append(op.Ops, Op{Kind: "deploy", Service: "web", Targets: g0, DeployTimeout: 5 * time.Second, DrainTimeout: drainT})
	// a second service that owns a host, used to provoke a host conflict
	other := newTargets("o", 1, 0)
	op.Ops = append(op.Ops, Op{Kind: "deploy", Service: "other", Hosts: []string{"taken.test"}, Targets: other, DeployTimeout: 5 * time.Second, DrainTimeout: drainT})
	n := 2 + rng.Intn(5)
	gen := 0
	paused := false
	focus := rng.Intn(6) == 0
	if focus {
		// a pause or stop that has to drain the active and the rollout targets at
		// once, each with requests that outlast the drain timeout
		n = 0
		op.Ops = append(op.Ops, Op{Kind: "rollout_deploy", Service: "web", Targets: newTargets("r0-", 1+rng.Intn(2), 0), DeployTimeout: deployT, DrainTimeout: drainT, Delay: 20 * time.Millisecond},
			Op{Kind: "rollout_set", Service: "web", Percent: 100, Delay: 10 * time.Millisecond},
			Op{Kind: pick(rng, "pause", "stop"), Service: "web", DrainTimeout: drainT, PauseTimeout: time.Duration(300+rng.Intn(2000)) * time.Millisecond, Delay: time.Duration(300+rng.Intn(400)) * time.Millisecond})
	}
	for i := 0; i < n; i++ {
		gen++
		d := time.Duration(100+rng.Intn(900)) * time.Millisecond
		switch rng.Intn(9) {
		case 0, 1: // redeploy, healthy (possibly late)
			op.Ops = append(op.Ops, Op{Kind: "deploy", Service: "web", Targets: newTargets(fmt.Sprintf("g%d-", gen), 1+rng.Intn(2), pick(rng, 0, 2)), DeployTimeout: deployT, DrainTimeout: drainT, Delay: d})
		case 2: // redeploy that never becomes healthy / too late
			op.Ops = append(op.Ops, Op{Kind: "deploy", Service: "web", Targets: newTargets(fmt.Sprintf("g%d-", gen), 1+rng.Intn(2), pick(rng, 1, 3, 4)), DeployTimeout: deployT, DrainTimeout: drainT, Delay: d})
		case 3: // host conflict, detected after the new target became healthy
			op.Ops = append(op.Ops, Op{Kind: "deploy", Service: "web", Hosts: []string{"taken.test"}, Targets: newTargets(fmt.Sprintf("g%d-", gen), 1, pick(rng, 0, 2)), DeployTimeout: deployT, DrainTimeout: drainT, Delay: d})
		case 4: // rollout deploy
			op.Ops = append(op.Ops, Op{Kind: "rollout_deploy", Service: "web", Targets: newTargets(fmt.Sprintf("r%d-", gen), 1, pick(rng, 0, 1, 2)), DeployTimeout: deployT, DrainTimeout: drainT, Delay: d})
			if rng.Intn(2) == 0 {
				op.Ops = append(op.Ops, Op{Kind: "rollout_set", Service: "web", Percent: 100, Delay: 20 * time.Millisecond})
			}
		case 5:
			if !paused {
				op.Ops = append(op.Ops, Op{Kind: pick(rng, "pause", "stop"), Service: "web", DrainTimeout: drainT, PauseTimeout: time.Duration(300+rng.Intn(2000)) * time.Millisecond, Delay: d})
				paused = true
			} else {
				op.Ops = append(op.Ops, Op{Kind: "resume", Service: "web", Delay: d})
				paused = false
			}
		case 6:
			op.Ops = append(op.Ops, Op{Kind: pick(rng, "rollout_set", "rollout_stop", "list"), Service: "web", Percent: 50, Delay: d})
		case 7:
			op.Ops = append(op.Ops, Op{Kind: "remove", Service: pick(rng, "web", "other", "nope"), Delay: d})
			if rng.Intn(2) == 0 {
				op.Ops = append(op.Ops, Op{Kind: "deploy", Service: "web", Targets: newTargets(fmt.Sprintf("g%d-", gen), 1, 0), DeployTimeout: deployT, DrainTimeout: drainT, Delay: 50 * time.Millisecond})
			}
		case 8:
			op.Ops = append(op.Ops, Op{Kind: "resume", Service: "web", Delay: d})
			paused = false
		}
	}
	// let the run go on for several probe intervals after the last command
	op.Ops = append(op.Ops, Op{Kind: "sleep", Delay: 4*interval + sc.HC.Timeout})
	sc.Actors = append(sc.Actors, op)
	nc := 1 + rng.Intn(4)
	if focus && nc < 2 {
		nc = 2
	}
	for c := 0; c < nc; c++ {
		a := ActorSpec{Name: fmt.Sprintf("client%d", c)}
		nr := 2 + rng.Intn(6)
		for i := 0; i < nr; i++ {
			o := Op{Kind: "request", Path: "/x", Delay: time.Duration(rng.Intn(1200)) * time.Millisecond}
			if rng.Intn(3) == 0 {
				alignOp(rng, &o, []string{"deploy.probing", "deploy.healthy", "router.install", "cmd.found", "op.pause", "op.stop", "op.deploy"}, 4)
			}
			if rng.Intn(2) == 0 {
				o.Cookie = "kamal-rollout=u" + fmt.Sprint(rng.Intn(4))
			}
			if focus && i == 0 {
				// in flight when the drain begins: with and without the rollout cookie
				o = Op{Kind: "request", Path: "/x", Delay: time.Duration(80+rng.Intn(200)) * time.Millisecond}
				if c%2 == 0 {
					o.Cookie = "kamal-rollout=u" + fmt.Sprint(rng.Intn(4))
				}
				o.Sim = pick(rng, "mode=hang", simDirective(drainT+time.Duration(300+rng.Intn(400))*time.Millisecond, 0, ""))
				a.Ops = append(a.Ops, o)
				continue
			}
			if rng.Intn(4) == 0 {
				// descheduled somewhere on the request path until a drain / deploy step has happened
				holdOp(rng, &o, []string{"drain.snapshot", "drain.marked", "drain.begin", "service.beforeDrain", "cmd.found", "router.install", "deploy.beforeDrain"})
				o.Hold.Max = time.Duration(200+rng.Intn(1500)) * time.Millisecond
			}
			switch rng.Intn(6) {
			case 0:
				o.Sim = "mode=hang"
			case 1:
				o.Upgrade = true
				o.AbortAfter = time.Duration(1500+rng.Intn(3000)) * time.Millisecond
			case 2:
				o.Sim = simDirective(drainT+time.Duration(rng.Intn(400)-200)*time.Millisecond, 0, "")
			case 3:
				o.Sim = simDirective(time.Duration(rng.Intn(300))*time.Millisecond, 0, "")
			}
			a.Ops = append(a.Ops, o)
		}
		sc.Actors = append(sc.Actors, a)
	}
	if rng.Intn(3) == 0 {
		// two operators: a second one redeploys, rollout-deploys and removes the
		// same service concurrently. Only the clauses that do not depend on a
		// sequential command history are evaluated for such runs.
		sc.Params = map[string]int{"concurrent_ops": 1}
		b := ActorSpec{Name: "opB"}
		for i := 0; i < 2+rng.Intn(4); i++ {
			gen++
			var o Op
			switch rng.Intn(4) {
			case 0, 1:
				o = Op{Kind: "deploy", Service: "web", Targets: newTargets(fmt.Sprintf("h%d-", gen), 1+rng.Intn(2), pick(rng, 0, 2)), DeployTimeout: deployT, DrainTimeout: drainT}
			case 2:
				o = Op{Kind: "rollout_deploy", Service: "web", Targets: newTargets(fmt.Sprintf("q%d-", gen), 1, pick(rng, 0, 2)), DeployTimeout: deployT, DrainTimeout: drainT}
			default:
				o = Op{Kind: "remove", Service: "web"}
			}
			o.Delay = time.Duration(50+rng.Intn(600)) * time.Millisecond
			if rng.Intn(2) == 0 {
				alignOp(rng, &o, []string{"deploy.found", "deploy.probing", "deploy.healthy", "deploy.beforeUpdate", "deploy.beforeInstall", "router.install", "deploy.beforeDrain", "op.deploy", "op.remove"}, 6)
				o.Delay = 800 * time.Millisecond
			}
			if i == 0 {
				o.Delay += 100 * time.Millisecond
			}
			b.Ops = append(b.Ops, o)
		}
		if rng.Intn(2) == 0 {
			// both operators deploy a different new service onto the same free
			// host at about the same time: one of the two is rejected, possibly
			// only after its targets became healthy, and must stop probing them
			a := &sc.Actors[0]
			last := a.Ops[len(a.Ops)-1]
			mine := Op{Kind: "deploy", Service: "x1", Hosts: []string{"race.test"}, Targets: newTargets("x1-", 1, pick(rng, 0, 2)), DeployTimeout: deployT, DrainTimeout: drainT, Delay: time.Duration(rng.Intn(300)) * time.Millisecond}
			a.Ops = append(append(a.Ops[:len(a.Ops)-1:len(a.Ops)-1], mine), last)
			theirs := Op{Kind: "deploy", Service: "x2", Hosts: []string{"race.test"}, Targets: newTargets("x2-", 1, pick(rng, 0, 2)), DeployTimeout: deployT, DrainTimeout: drainT}
			alignOp(rng, &theirs, []string{"op.deploy", "deploy.found", "deploy.probing", "deploy.healthy", "deploy.beforeUpdate", "deploy.beforeInstall"}, 2*n)
			b.Ops = append(b.Ops, theirs)
		}
		if rng.Intn(3) == 0 {
			// the second operator only removes, each time while a deploy of the
			// first one is about to install (or has just installed) its copy
			b.Ops = nil
			for i := 0; i < 1+rng.Intn(3); i++ {
				o := Op{Kind: "remove", Service: "web", Delay: 2 * time.Second}
				alignOp(rng, &o, []string{"deploy.beforeUpdate", "deploy.beforeInstall", "router.install"}, 2*n)
				b.Ops = append(b.Ops, o)
			}
		}
		sc.Actors = append(sc.Actors, b)
	}
	addCensus(sc)
	return sc
}

func isProbeSend(e *Event) bool {
	return (e.Kind == "net.open" || e.Kind == "net.refused" || e.Kind == "net.dialfail") && e.Info == "probe"
}

func checkC17(r *RunResult) []Violation {
	var out []Violation
	w := r.W
	z := slack(r.Sc)
	// first 2xx probe response per target address
	first2xx := map[string]time.Duration{}
	for i := range r.H.Events {
		e := &r.H.Events[i]
		if e.Kind == "tgt.proberesp" && is2xx(e.Status) {
			if _, ok := first2xx[e.Target]; !ok {
				first2xx[e.Target] = e.T
			}
		}
		if e.Kind == "tgt.abort" && e.Info == "hang" {
			r.Probes["target_hung"]++
		}
	}
	current := map[string][]string{} // service/slot -> targets in force (model)
	for _, c := range w.Cmds {
		if c.Ret == 0 {
			lim := c.Op.DeployTimeout + c.Op.DrainTimeout
			if c.Op.Kind != "deploy" && c.Op.Kind != "rollout_deploy" {
				lim = c.Op.DrainTimeout
			}
			if r.Virtual < c.CallT+lim+z+time.Second {
				continue // the run was cut before the command's bound: inconclusive
			}
			out = append(out, Violation{Prop: "C17", Clause: "command-never-returned", Msg: fmt.Sprintf("%s %s called at #%d (t=%v) had not returned when the run ended at t=%v", c.Op.Kind, c.Op.Service, c.Call, c.CallT, r.Virtual)})
			continue
		}
		el := c.RetT - c.CallT
		var bound time.Duration
		switch c.Op.Kind {
		case "deploy", "rollout_deploy":
			bound = c.Op.DeployTimeout + c.Op.DrainTimeout
		case "pause", "stop":
			bound = c.Op.DrainTimeout
		default:
			bound = 0
		}
		if el > bound+z && r.Sc.Params["concurrent_ops"] == 0 { // (overlapping deploys of one service queue behind each other)
			out = append(out, Violation{Prop: "C17", Clause: "command-exceeded-bound", Msg: fmt.Sprintf("%s %s took %v (called #%d, returned #%d); bound is %v", c.Op.Kind, c.Op.Service, el, c.Call, c.Ret, bound)})
		}
		if el > c.Op.DeployTimeout-z && (c.Op.Kind == "deploy" || c.Op.Kind == "rollout_deploy") {
			r.Probes["timeout_expired"]++
		}
		if r.Sc.Params["concurrent_ops"] != 0 {
			continue // the clauses below assume a sequential command history
		}
		// promptness and probe hygiene
		var stopProbing []string
		slot := c.Op.Service + "/" + c.Op.Kind
		switch c.Op.Kind {
		case "deploy", "rollout_deploy":
			if c.Err != nil {
				stopProbing = c.Op.Targets
				// a deploy that fails for lack of health returns at the deadline, not before
				if isUnhealthyErr(c.Err) && el < c.Op.DeployTimeout-z {
					out = append(out, Violation{Prop: "C17", Clause: "failed-early", Msg: fmt.Sprintf("%s %s gave up after %v, before its deploy timeout %v", c.Op.Kind, c.Op.Service, el, c.Op.DeployTimeout)})
				}
			} else {
				// success: returns no later than (all new targets healthy) + drain timeout
				var th time.Duration
				for _, t := range c.Op.Targets {
					if f, ok := first2xx[t]; ok && f > th {
						th = f
					}
				}
				if th < c.CallT {
					th = c.CallT
				}
				replaced := current[slot]
				if len(replaced) == 0 && c.RetT > th+z {
					out = append(out, Violation{Prop: "C17", Clause: "not-prompt", Msg: fmt.Sprintf("%s %s with nothing to drain returned at t=%v although its last target was healthy at t=%v", c.Op.Kind, c.Op.Service, c.RetT, th)})
				}
				if c.RetT > th+c.Op.DrainTimeout+z {
					out = append(out, Violation{Prop: "C17", Clause: "not-prompt", Msg: fmt.Sprintf("%s %s returned at t=%v: later than healthy (t=%v) + drain timeout %v", c.Op.Kind, c.Op.Service, c.RetT, th, c.Op.DrainTimeout)})
				}
				if len(replaced) > 0 {
					// drained as soon as the last exchange on the replaced targets ended
					last := lastExchangeEnd(r, replaced, c.Ret)
					want := th
					if last > want {
						want = last
					}
					if c.RetT > want+z {
						out = append(out, Violation{Prop: "C17", Clause: "not-prompt", Msg: fmt.Sprintf("%s %s returned at t=%v although the new targets were healthy at t=%v and the last request on the replaced targets ended at t=%v", c.Op.Kind, c.Op.Service, c.RetT, th, last)})
					}
				}
				stopProbing = replaced
				current[slot] = c.Op.Targets
			}
		case "remove":
			if c.Err == nil {
				stopProbing = append(append([]string{}, current[c.Op.Service+"/deploy"]...), current[c.Op.Service+"/rollout_deploy"]...)
				delete(current, c.Op.Service+"/deploy")
				delete(current, c.Op.Service+"/rollout_deploy")
			}
		case "pause", "stop":
			if c.Err == nil {
				tg := append(append([]string{}, current[c.Op.Service+"/deploy"]...), current[c.Op.Service+"/rollout_deploy"]...)
				last := lastExchangeEnd(r, tg, c.Ret)
				want := c.CallT
				if last > want {
					want = last
				}
				if c.RetT > want+z {
					out = append(out, Violation{Prop: "C17", Clause: "not-prompt", Msg: fmt.Sprintf("%s %s returned at t=%v although the last request on its targets ended at t=%v (called t=%v)", c.Op.Kind, c.Op.Service, c.RetT, last, c.CallT)})
				}
			}
		}
		if len(stopProbing) > 0 {
			stop := map[string]bool{}
			for _, t := range stopProbing {
				stop[t] = true
			}
			for i := range r.H.Events {
				e := &r.H.Events[i]
				if e.Seq > c.Ret && stop[e.Target] && isProbeSend(e) {
					out = append(out, Violation{Prop: "C17", Clause: "probe-after-" + clauseKind(c), Sig: clauseKind(c),
						Msg: fmt.Sprintf("target %s was probed at #%d (t=%v) after %s %s had returned at #%d (t=%v, err=%v)", e.Target, e.Seq, e.T, c.Op.Kind, c.Op.Service, c.Ret, c.RetT, c.Err)})
					break
				}
			}
		}
	}
	out = append(out, checkOrphanProbes(r, "C17")...)
	if r.Leak != "" {
		out = append(out, Violation{Prop: "C17", Clause: "goroutines-left-behind", Msg: "after teardown: " + trunc(r.Leak, 300)})
	}
	return out
}

func clauseKind(c *CmdResult) string {
	switch {
	case c.Op.Kind == "remove":
		return "remove"
	case c.Err == nil:
		return "redeploy"
	case isUnhealthyErr(c.Err):
		return "unhealthy-deploy"
	}
	return "rejected-deploy"
}

func isUnhealthyErr(err error) bool {
	return err != nil && containsStr(err.Error(), "failed to become healthy")
}

func containsStr(s, sub string) bool {
	return len(sub) == 0 || (len(s) >= len(sub) && indexOf(s, sub) >= 0)
}

func indexOf(s, sub string) int {
	for i := 0; i+len(sub) <= len(s); i++ {
		if s[i:i+len(sub)] == sub {
			return i
		}
	}
	return -1
}

// lastExchangeEnd returns the latest end (response complete, abort or close of
// an upgraded connection) of an exchange on the given targets that began
// before event seq `before`.
func lastExchangeEnd(r *RunResult, targets []string, before int) time.Duration {
	set := map[string]bool{}
	for _, t := range targets {
		set[t] = true
	}
	began := map[string]bool{}
	var last time.Duration
	// A request goroutine that sits (descheduled: a hold, a CPU stall) between
	// its claim and the exchange is in flight for the proxy although the target
	// sees nothing: the drain rightly waits for it. A claim lasts from the step
	// released at "lb.claim" until either it is given back (the request goes
	// round to "service.gate" again: the give-back ran in the last step of the
	// claim's chain, plus the automatic lock steps that directly follow it in
	// the second build) or the request returns to the client.
	ix := r.stepIdx()
	retT := func() time.Duration { return r.H.Events[before-1].T }
	for _, q := range r.W.Responses {
		var start, end *Event
		flush := func(givenBack bool) {
			if start == nil || start.Seq >= before {
				start = nil
				return
			}
			t := retT() // still holding it when the command returned
			if givenBack {
				if tail := ix.lockTail(end, ""); tail.Seq < before {
					t = tail.T
				}
			} else if q.Ret != 0 && q.Ret < before {
				t = q.RetT
			}
			if t > last {
				last = t
			}
			start = nil
		}
		var prev *Event
		for _, e := range ix.byReq[q.ReqID] {
			switch e.Info {
			case "lb.claim":
				flush(true)
				start, end = e, e
			case "service.claimed", "lb.claimed", "target.send", "target.sent":
				if start == nil {
					// "lb.claim" is switched off in this run: the claim was made in
					// the step released at the request's previous yield point
					start = e
					if prev != nil {
						start = prev
					}
				}
				end = e
			case "service.gate":
				flush(true)
			}
			prev = e
		}
		flush(false)
	}
	for i := range r.H.Events {
		e := &r.H.Events[i]
		if !set[e.Target] || e.Req == "" {
			continue
		}
		key := e.Target + "|" + e.Req
		switch e.Kind {
		case "tgt.recv":
			if e.Seq < before {
				began[key] = true
			}
		case "tgt.resp", "tgt.abort", "tgt.upclosed":
			if began[key] && e.T > last && !(e.Kind == "tgt.resp" && e.Status == 101) {
				last = e.T
			}
		}
	}
	return last
}
