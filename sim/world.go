package sim

import (
	"bufio"
	"bytes"
	"context"
	"crypto/tls"
	"encoding/json"
	"errors"
	"fmt"
	"io"
	"log/slog"
	"net"
	"net/http"
	"os"
	"path/filepath"
	"runtime/debug"
	"sort"
	"strings"
	"sync"
	"sync/atomic"
	"time"

	"github.com/basecamp/kamal-proxy/internal/server"
)

// ---------------------------------------------------------------------------
// World: one simulated proxy process (or several routers sharing a network),
// its fake targets, its actors, and the recorded observations.
// ---------------------------------------------------------------------------

type Response struct {
	ReqID    string
	Status   int
	Header   http.Header
	Body     []byte
	ServedBy string
	Err      string // transport-level error seen by the client (server mode) or panic text
	Call     int    // event seq of req.call
	Ret      int    // event seq of req.ret (0 = never returned)
	CallT    time.Duration
	RetT     time.Duration
	HeadT    time.Duration // when the status line reached the client
	Op       *Op
	Actor    string
	OpIdx    int
	Hijacked bool
	Raw      []byte // server mode: raw response bytes
	Clean    bool   // server mode: response was complete and well-formed
}

type CmdResult struct {
	Actor string
	OpIdx int
	Op    *Op
	Err   error
	Panic string
	Call  int
	Ret   int
	CallT time.Duration
	RetT  time.Duration
	List  server.ServiceDescriptionMap
}

type TargetSeen struct {
	ReqID   string
	RawHead string
	Body    []byte
	Seq     int
}

type RouterInst struct {
	Name      string
	Router    *server.Router
	Handler   http.Handler
	StatePath string
	Srv       *http.Server
	Listener  *Listener
}

type CrashCopy struct {
	Seq     int
	Point   string
	Router  string
	Content []byte
	Missing bool
	// Others holds what else the process would leave behind next to the state
	// file (temporary and backup files: same name plus a suffix), by suffix.
	Others map[string][]byte
}

type World struct {
	Sc      *Scenario
	S       *Sim
	H       *History
	Net     *Net
	Dir     string
	Routers map[string]*RouterInst
	Targets map[string]*FakeTarget

	mu           sync.Mutex
	Responses    []*Response
	Cmds         []*CmdResult
	Seen         map[string][]TargetSeen
	Crashes      []CrashCopy
	CrashResults []crashResult
	Obs          []*Observation
	CertProbes   []CertProbe
	acme         *acmeFake
	certSeen     map[string]bool
	Logs         []map[string]any
	tids         map[*server.Target]string
	lbids        map[*server.LoadBalancer]string
	hcs          []*server.HealthCheck
	hcids        map[*server.HealthCheck]string
	ords         map[string]int
	cancels      []context.CancelFunc
	probeTr      *http.Transport
	routerOf     map[*server.Router]string
	CrashOn      bool             // copy the state file at snapshot.* steps
	reqHolds     map[string]*Hold // server mode: holds armed by request id
	taskHolds    []TaskHold       // holds for goroutines of the proxy, by task name prefix (one shot each)
	certDir      string
	dead         atomic.Bool
	pointN       map[string]int
	waiters      map[string][]*pointWaiter
}

type pointWaiter struct {
	n  int
	ch chan struct{}
}

func (w *World) bumpPointLocked(point string) {
	w.pointN[point]++
	if ws := w.waiters[point]; len(ws) > 0 {
		keep := ws[:0]
		for _, pw := range ws {
			if w.pointN[point] >= pw.n {
				close(pw.ch)
			} else {
				keep = append(keep, pw)
			}
		}
		w.waiters[point] = keep
	}
}

// waitPoint blocks until the yield point has been released n times in total,
// or until max has passed.
func (w *World) waitPoint(point string, n int, max time.Duration) bool {
	if n <= 0 {
		n = 1
	}
	w.mu.Lock()
	if w.pointN[point] >= n {
		w.mu.Unlock()
		return true
	}
	pw := &pointWaiter{n: n, ch: make(chan struct{})}
	w.waiters[point] = append(w.waiters[point], pw)
	w.mu.Unlock()
	if max <= 0 {
		max = 2*time.Second + 77*time.Microsecond
	}
	t := w.S.NewTimer(max)
	defer t.Stop()
	select {
	case <-pw.ch:
		return true
	case <-t.C:
		return false
	}
}

var worldSeq int

func scratchBase() string {
	if d := os.Getenv("VERIF_SCRATCH"); d != "" {
		return d
	}
	if st, err := os.Stat("/dev/shm"); err == nil && st.IsDir() {
		return "/dev/shm"
	}
	return os.TempDir()
}

func NewWorld(sc *Scenario, s *Sim, h *History) *World {
	worldSeq++
	dir := filepath.Join(scratchBase(), fmt.Sprintf("verif-%d-%d", os.Getpid(), worldSeq))
	os.RemoveAll(dir)
	os.MkdirAll(filepath.Join(dir, "tmp"), 0o755)
	w := &World{
		Sc: sc, S: s, H: h, Dir: dir,
		Net:      NewNet(h, s),
		Routers:  map[string]*RouterInst{},
		Targets:  map[string]*FakeTarget{},
		Seen:     map[string][]TargetSeen{},
		tids:     map[*server.Target]string{},
		lbids:    map[*server.LoadBalancer]string{},
		hcids:    map[*server.HealthCheck]string{},
		ords:     map[string]int{},
		routerOf: map[*server.Router]string{},
		pointN:   map[string]int{},
		waiters:  map[string][]*pointWaiter{},
	}
	os.Setenv("TMPDIR", filepath.Join(dir, "tmp"))
	w.Net.onClose = func(c *Conn, reset bool) {
		info := "client-side"
		if c.side == 1 {
			info = "server-side"
		}
		if reset {
			info += " reset"
		}
		h.Add(Event{Kind: "net.close", Obj: c.ID(), Target: string(c.p.connTarget()), Info: info})
	}
	if sc.Params["scan_tmp"] != 0 {
		// the moment the proxy starts forwarding a request is the moment its
		// buffered body is certainly still held
		w.Net.onProxyWrite = func(rid string) {
			f, b := w.scanTmp()
			h.Add(Event{Kind: "tmp.scan", Req: rid, N: f, Info: fmt.Sprint(b)})
		}
	}
	// hooks
	w.probeTr = &http.Transport{DialContext: w.Net.Dialer("probe", "10.0.0.1"), MaxIdleConns: 100, IdleConnTimeout: 90 * time.Second}
	if s.RealScale > 0 {
		// Real-time race mode: goroutines of the previous run may still be
		// winding down, so the package-level hooks are written once per process
		// and dispatch to the current world through an atomic pointer; SimHook
		// stays nil (yield points are no-ops).
		currentWorld.Store(w)
		raceHooksOnce.Do(func() {
			server.SimNoteHook = func(point string, obj any) {
				if hc, ok := obj.(*server.HealthCheck); ok {
					cw := currentWorld.Load()
					cw.mu.Lock()
					cw.hcs = append(cw.hcs, hc)
					cw.mu.Unlock()
				}
			}
			server.SimDial = func(ctx context.Context, network, addr string) (net.Conn, error) {
				return currentWorld.Load().Net.Dial(ctx, "proxy", "10.0.0.1", addr)
			}
			http.DefaultClient.Transport = roundTripFunc(func(r *http.Request) (*http.Response, error) {
				return currentWorld.Load().probeTr.RoundTrip(r)
			})
		})
	} else {
		server.SimHook = s.Hook
		server.SimNoteHook = w.note
		if s.Free {
			// race mode: keep only what teardown needs (the list of health checks)
			server.SimNoteHook = func(point string, obj any) {
				if hc, ok := obj.(*server.HealthCheck); ok {
					w.mu.Lock()
					w.hcs = append(w.hcs, hc)
					w.mu.Unlock()
				}
			}
		}
		server.SimDial = w.Net.Dialer("proxy", "10.0.0.1")
		http.DefaultClient.Transport = w.probeTr
	}
	slog.SetDefault(slog.New(&captureHandler{w: w}))
	// A closed health check whose ticker had a tick buffered may or may not run
	// one more (no-op) check: Go's select picks at random between the two ready
	// cases. That check does nothing observable, so it must not become a step.
	s.skip = func(point string, arg any) bool {
		if hc, ok := arg.(*server.HealthCheck); ok && point == "hc.check" {
			return server.SimHealthCheckStopped(hc)
		}
		return false
	}
	s.namer = w.nameFor
	s.onStep = w.onStep
	s.holdFor = w.holdFor
	w.taskHolds = append([]TaskHold(nil), sc.TaskHolds...)
	s.onHold = func(at string) {
		// operations can be aligned with "a goroutine has just been descheduled at <point>"
		w.mu.Lock()
		w.bumpPointLocked("hold:" + at)
		w.mu.Unlock()
	}
	w.CrashOn = sc.Params["crash"] != 0
	w.certSeen = map[string]bool{}
	if sc.Params["acme"] != 0 {
		w.acme = &acmeFake{w: w}
		w.Net.Register("acme.test:80", w.acme)
	}
	if AutoYield {
		installAutoHooks(s) // real lock ownership is tracked; no hand-modelled section needed
	} else {
		s.AddSection("snapshot.lock", "snapshot.unlocked", false)
		s.AddSection("deploy.lock", "deploy.unlocked", true) // one deploy lock per service name
	}
	for _, ts := range sc.Targets {
		w.AddTarget(ts)
	}
	if len(sc.Pages) > 0 {
		pd := filepath.Join(dir, "pages-good")
		os.MkdirAll(pd, 0o755)
		for name, content := range sc.Pages {
			os.WriteFile(filepath.Join(pd, name), []byte(content), 0o644)
		}
	}
	bad := filepath.Join(dir, "pages-bad")
	os.MkdirAll(bad, 0o755)
	os.WriteFile(filepath.Join(bad, "503.html"), []byte("{{ .Broken "), 0o644)
	return w
}

func (p *connPair) connTarget() Addr {
	// id is kind/addr#n
	id := p.id
	if i := strings.Index(id, "/"); i >= 0 {
		id = id[i+1:]
	}
	if i := strings.LastIndex(id, "#"); i >= 0 {
		id = id[:i]
	}
	return Addr(id)
}

func (w *World) AddRouter(name string) *RouterInst {
	statePath := filepath.Join(w.Dir, "state-"+name+".json")
	r := server.NewRouter(statePath)
	cfg := &server.Config{Bind: "127.0.0.1", HttpPort: 80, HttpsPort: 443, AlternateConfigDir: w.Dir}
	srv := server.NewServer(cfg, r)
	ri := &RouterInst{Name: name, Router: r, Handler: srv.SimHandler(), StatePath: statePath}
	w.mu.Lock()
	w.Routers[name] = ri
	w.routerOf[r] = name
	w.mu.Unlock()
	if w.Sc.Server {
		ri.Listener = w.Net.Listen("proxy-" + name + ":80")
		ri.Srv = &http.Server{Handler: ri.Handler}
		go ri.Srv.Serve(ri.Listener)
	}
	return ri
}

func (w *World) router(name string) *RouterInst {
	if name == "" {
		name = "A"
	}
	w.mu.Lock()
	ri := w.Routers[name]
	w.mu.Unlock()
	if ri == nil {
		ri = w.AddRouter(name)
	}
	return ri
}

// ---- notes, names, step events --------------------------------------------

func (w *World) ordinal(key string) string {
	w.ords[key]++
	return fmt.Sprintf("%s#%d", key, w.ords[key])
}

func (w *World) note(point string, obj any) {
	w.mu.Lock()
	defer w.mu.Unlock()
	switch o := obj.(type) {
	case *server.Target:
		id := w.ordinal(o.Target())
		w.tids[o] = id
		w.H.Add(Event{Kind: "note.target", Target: o.Target(), Obj: id})
	case *server.HealthCheck:
		t := server.SimHealthCheckTarget(o)
		id := "?"
		if t != nil {
			id = w.tids[t]
		}
		w.hcids[o] = id
		w.hcs = append(w.hcs, o)
	case *server.LoadBalancer:
		id := w.ordinal("lb")
		w.lbids[o] = id
		var names []string
		for _, t := range server.SimLoadBalancerTargets(o) {
			names = append(names, w.tids[t])
		}
		w.H.Add(Event{Kind: "note.lb", Obj: id, Info: strings.Join(names, ",")})
	}
}

func (w *World) TargetID(t *server.Target) string {
	w.mu.Lock()
	defer w.mu.Unlock()
	return w.tids[t]
}

// holdFor hands the hold of a server-mode request (armed under its request id,
// because the goroutine that will serve it does not exist yet) to the goroutine
// that reaches the hold's yield point with that request.
func (w *World) holdFor(task, point string, arg any) *Hold {
	w.mu.Lock()
	defer w.mu.Unlock()
	for i := range w.taskHolds {
		th := &w.taskHolds[i]
		if holdAt(&th.Hold, point) && strings.HasPrefix(task, th.Task) {
			h := th.Hold
			if h.Max <= 0 {
				h.Max = 2 * time.Second
			}
			w.taskHolds = append(w.taskHolds[:i:i], w.taskHolds[i+1:]...)
			return &h
		}
	}
	req, ok := arg.(*http.Request)
	if !ok || len(w.reqHolds) == 0 {
		return nil
	}
	rid := req.Header.Get("X-Request-Id")
	if h := w.reqHolds[rid]; h != nil && holdAt(h, point) {
		delete(w.reqHolds, rid)
		return h
	}
	return nil
}

func (w *World) nameFor(point string, arg any) string {
	w.mu.Lock()
	defer w.mu.Unlock()
	switch o := arg.(type) {
	case *server.HealthCheck:
		return "hc:" + w.hcids[o]
	case *server.Target:
		switch {
		case strings.HasPrefix(point, "lb.wait"):
			return "wait:" + w.tids[o]
		case strings.HasPrefix(point, "drain."):
			return "drain:" + w.tids[o]
		}
		return "t:" + w.tids[o]
	case *http.Request:
		return "srv:" + o.RemoteAddr
	}
	return ""
}

func (w *World) onStep(t *Task) {
	e := Event{Kind: "step", Task: t.name, Info: t.point}
	w.mu.Lock()
	w.bumpPointLocked(t.point)
	switch o := t.arg.(type) {
	case *http.Request:
		e.Req = o.Header.Get("X-Request-Id")
	case *server.Target:
		e.Target, e.Obj = o.Target(), w.tids[o]
	case *server.HealthCheck:
		e.Obj = w.hcids[o]
		if i := strings.Index(e.Obj, "#"); i > 0 {
			e.Target = e.Obj[:i]
		}
	case *server.LoadBalancer:
		e.Obj = w.lbids[o]
	case *server.Router:
		e.Obj = w.routerOf[o]
	case *server.Service:
	case string:
		e.Obj = o
	}
	crash := w.CrashOn && strings.HasPrefix(t.point, "snapshot.")
	fsCrash := w.CrashOn && strings.HasPrefix(t.point, "fs@")
	var rname string
	if r, ok := t.arg.(*server.Router); ok {
		rname = w.routerOf[r]
	}
	var all []string
	if fsCrash {
		for n := range w.Routers {
			all = append(all, n)
		}
		sort.Strings(all)
	}
	w.mu.Unlock()
	seq := w.H.Add(e)
	if crash && rname != "" {
		w.copyState(seq, t.point, rname)
	}
	// a file-system operation is about to run (autoyield build): the process may be killed right here
	for _, n := range all {
		w.copyState(seq, t.point, n)
	}
}

func (w *World) copyState(seq int, point, rname string) {
	ri := w.router(rname)
	b, err := os.ReadFile(ri.StatePath)
	var others map[string][]byte
	if ents, e2 := os.ReadDir(filepath.Dir(ri.StatePath)); e2 == nil {
		base := filepath.Base(ri.StatePath)
		for _, en := range ents {
			if n := en.Name(); n != base && strings.HasPrefix(n, base) && !en.IsDir() {
				if c, e3 := os.ReadFile(filepath.Join(filepath.Dir(ri.StatePath), n)); e3 == nil {
					if others == nil {
						others = map[string][]byte{}
					}
					others[strings.TrimPrefix(n, base)] = c
				}
			}
		}
	}
	w.mu.Lock()
	w.Crashes = append(w.Crashes, CrashCopy{Seq: seq, Point: point, Router: rname, Content: b, Missing: err != nil, Others: others})
	w.mu.Unlock()
}

func (w *World) noteTargetRequest(addr, rid, rawHead string, body []byte) {
	if w.S.Free {
		return
	}
	w.mu.Lock()
	w.Seen[addr] = append(w.Seen[addr], TargetSeen{ReqID: rid, RawHead: rawHead, Body: append([]byte(nil), body...), Seq: w.H.Len()})
	w.mu.Unlock()
}

// ---- log capture -----------------------------------------------------------

type captureHandler struct {
	w     *World
	attrs []slog.Attr
}

func (h *captureHandler) Enabled(context.Context, slog.Level) bool { return true }
func (h *captureHandler) Handle(_ context.Context, r slog.Record) error {
	if r.Message != "Request" {
		if r.Level >= slog.LevelWarn && os.Getenv("VERIF_LOGS") != "" {
			line := r.Message
			r.Attrs(func(a slog.Attr) bool { line += fmt.Sprintf(" %s=%v", a.Key, a.Value.Any()); return true })
			h.w.H.Add(Event{Kind: "log", Info: line})
		}
		return nil
	}
	m := map[string]any{"msg": r.Message}
	r.Attrs(func(a slog.Attr) bool {
		m[a.Key] = a.Value.Any()
		return true
	})
	h.w.mu.Lock()
	h.w.Logs = append(h.w.Logs, m)
	h.w.mu.Unlock()
	return nil
}
func (h *captureHandler) WithAttrs(a []slog.Attr) slog.Handler { return h }
func (h *captureHandler) WithGroup(string) slog.Handler        { return h }

// ---- actors ---------------------------------------------------------------

func (w *World) StartActors() {
	for i := range w.Sc.Actors {
		a := &w.Sc.Actors[i]
		w.S.Go(a.Name, "actor", func() { w.runActor(a) })
	}
}

func (w *World) runActor(a *ActorSpec) {
	for i := range a.Ops {
		op := &a.Ops[i]
		if op.After != "" {
			if !w.waitPoint(op.After, op.AfterN, op.Delay) && op.Strict {
				continue // the moment it was meant for never came (the yield point may be switched off in this run)
			}
		} else if op.Delay > 0 {
			w.S.Sleep(op.Delay)
		}
		if w.dead.Load() {
			return
		}
		w.S.Yield("op." + op.Kind)
		if w.dead.Load() {
			return
		}
		w.execOp(a.Name, i, op)
	}
}

func (w *World) execOp(actor string, idx int, op *Op) {
	if op.Hold != nil {
		h := *op.Hold
		if h.Max <= 0 {
			h.Max = 2 * time.Second
		}
		w.S.SetHold(&h)
		defer w.S.SetHold(nil)
	}
	switch op.Kind {
	case "sleep":
	case "probe_mode":
		// fault: the listed targets answer probes differently from here on
		for _, t := range op.Targets {
			if ft := w.Targets[t]; ft != nil {
				ft.SetProbeMode(op.Sim)
				w.H.Add(Event{Kind: "fault", Target: t, Info: "probe-mode:" + op.Sim})
			}
		}
	case "census":
		// what is installed right now (list + state file), without any request
		w.Observe(actor, idx, op, nil, 0)
	case "certs":
		w.probeCerts(actor, idx, op)
	case "observe":
		rep := w.Sc.Params["obs_repeat"]
		if rep == 0 {
			rep = 3
		}
		keys := matrixKeysFor(w.Sc, w.Sc.Params["obs_cookie"] != 0)
		if w.Sc.Params["rt_matrix"] != 0 {
			keys = routingMatrixKeys(w.Sc.Seed)
		}
		w.Observe(actor, idx, op, keys, rep)
	case "request":
		if w.Sc.Server {
			w.doRawRequest(actor, idx, op)
		} else {
			w.doRequest(actor, idx, op)
		}
	default:
		w.doCommand(actor, idx, op)
	}
}

func dflt(d, def time.Duration) time.Duration {
	if d == 0 {
		return def
	}
	return d
}

// dur = default, then scaled for real-time mode
func (w *World) dur(d, def time.Duration) time.Duration { return w.S.D(dflt(d, def)) }

func (w *World) svcOptions(op *Op) server.ServiceOptions {
	o := server.ServiceOptions{Hosts: append([]string(nil), op.Hosts...), PathPrefixes: append([]string(nil), op.Paths...), TLSRedirect: true}
	if s := op.Svc; s != nil {
		o.TLSEnabled = s.TLS
		o.TLSRedirect = s.TLSRedirect
		o.StripPrefix = s.StripPrefix
		switch s.StaticCert {
		case "good":
			c, k := w.certFiles()
			o.TLSCertificatePath, o.TLSPrivateKeyPath = c, k
		case "bad":
			o.TLSCertificatePath, o.TLSPrivateKeyPath = filepath.Join(w.Dir, "nope.pem"), filepath.Join(w.Dir, "nope.key")
		}
		if s.ACME {
			o.ACMEDirectory = "http://acme.test/directory"
			o.ACMECachePath = filepath.Join(w.Dir, "acme-cache")
		}
		switch s.ErrorPages {
		case "good":
			o.ErrorPagePath = filepath.Join(w.Dir, "pages-good")
		case "bad":
			o.ErrorPagePath = filepath.Join(w.Dir, "pages-bad")
		case "missing":
			o.ErrorPagePath = filepath.Join(w.Dir, "pages-missing")
		}
	}
	return o
}

func (w *World) tgtOptions(op *Op) server.TargetOptions {
	hc := w.Sc.HC
	o := server.TargetOptions{
		HealthCheckConfig:   server.HealthCheckConfig{Path: hc.Path, Interval: w.S.D(hc.Interval), Timeout: w.S.D(hc.Timeout)},
		ResponseTimeout:     w.S.D(server.DefaultTargetTimeout),
		MaxMemoryBufferSize: server.DefaultMaxMemoryBufferSize,
	}
	if o.HealthCheckConfig.Path == "" {
		o.HealthCheckConfig.Path = "/up"
	}
	if hc.TargetTimeout != 0 {
		o.ResponseTimeout = w.S.D(hc.TargetTimeout)
	}
	if t := op.Tgt; t != nil {
		if t.ResponseTimeout != 0 {
			o.ResponseTimeout = w.S.D(t.ResponseTimeout)
		}
		o.BufferRequests, o.BufferResponses = t.BufferRequests, t.BufferResponses
		if t.MaxMem > 0 {
			o.MaxMemoryBufferSize = t.MaxMem
		} else if t.MaxMem < 0 {
			o.MaxMemoryBufferSize = 0
		}
		o.MaxRequestBodySize, o.MaxResponseBodySize = t.MaxReq, t.MaxResp
		o.ForwardHeaders = t.ForwardHeaders
		o.LogRequestHeaders = append([]string(nil), t.LogReqHeaders...)
		o.LogResponseHeaders = append([]string(nil), t.LogRespHeaders...)
		if t.HCInterval != 0 {
			o.HealthCheckConfig.Interval = w.S.D(t.HCInterval)
		}
		if t.HCTimeout != 0 {
			o.HealthCheckConfig.Timeout = w.S.D(t.HCTimeout)
		}
		if t.HCPath != "" {
			o.HealthCheckConfig.Path = t.HCPath
		}
	}
	return o
}

func (w *World) doCommand(actor string, idx int, op *Op) {
	ri := w.router(op.Router)
	r := ri.Router
	res := &CmdResult{Actor: actor, OpIdx: idx, Op: op}
	res.CallT = w.S.Now()
	res.Call = w.H.Add(Event{Kind: "cmd.call", Actor: actor, Op: idx, Info: op.Kind, Obj: op.Service, Task: ri.Name})
	w.mu.Lock()
	w.Cmds = append(w.Cmds, res)
	w.mu.Unlock()
	func() {
		defer func() {
			if p := recover(); p != nil {
				res.Panic = fmt.Sprintf("%v | %s", p, shortStack())
			}
		}()
		switch op.Kind {
		case "deploy":
			res.Err = r.DeployService(op.Service, op.Targets, w.svcOptions(op), w.tgtOptions(op), w.dur(op.DeployTimeout, 30*time.Second), w.dur(op.DrainTimeout, 30*time.Second))
		case "rollout_deploy":
			res.Err = r.SetRolloutTargets(op.Service, op.Targets, w.dur(op.DeployTimeout, 30*time.Second), w.dur(op.DrainTimeout, 30*time.Second))
		case "rollout_set":
			res.Err = r.SetRolloutSplit(op.Service, op.Percent, op.Allow)
		case "rollout_stop":
			res.Err = r.StopRollout(op.Service)
		case "pause":
			res.Err = r.PauseService(op.Service, w.dur(op.DrainTimeout, 30*time.Second), w.dur(op.PauseTimeout, 30*time.Second))
		case "stop":
			res.Err = r.StopService(op.Service, w.dur(op.DrainTimeout, 30*time.Second), op.Message)
		case "resume":
			res.Err = r.ResumeService(op.Service)
		case "remove":
			res.Err = r.RemoveService(op.Service)
		case "list":
			res.List = r.ListActiveServices()
		case "restore":
			src := w.router(op.From)
			b, err := os.ReadFile(src.StatePath)
			if err == nil {
				// The proxy lists its services in map order. Sorting the copy by
				// service name keeps the restored router's object creation order
				// (and with it task names) independent of that.
				os.WriteFile(ri.StatePath, sortStateFile(b), 0o644)
			}
			res.Err = r.RestoreLastSavedState()
		default:
			res.Err = fmt.Errorf("unknown op %q", op.Kind)
		}
	}()
	e := Event{Kind: "cmd.ret", Actor: actor, Op: idx, Info: op.Kind, Obj: op.Service, Task: ri.Name}
	if res.Err != nil {
		e.Err = res.Err.Error()
	}
	if res.Panic != "" {
		e.Err = "PANIC: " + res.Panic
	}
	res.RetT = w.S.Now()
	res.Ret = w.H.Add(e)
	if w.CrashOn {
		w.copyState(res.Ret, "cmd.ret", ri.Name)
	}
	w.S.NotePoint("cmd.ret")
	w.mu.Lock()
	w.bumpPointLocked("cmd.ret")
	w.mu.Unlock()
}

// ---- direct-mode requests --------------------------------------------------

type recorder struct {
	w          *World
	resp       *Response
	hdr        http.Header
	wrote      bool
	body       bytes.Buffer
	hijacked   bool
	abort      time.Duration
	clientDone chan struct{}
}

func (r *recorder) Header() http.Header { return r.hdr }
func (r *recorder) WriteHeader(code int) {
	if r.wrote {
		return
	}
	if code >= 100 && code < 200 && code != 101 {
		return
	}
	r.wrote = true
	r.resp.Status = code
	r.resp.Header = r.hdr.Clone()
	r.resp.HeadT = r.w.S.Now()
	r.w.H.Add(Event{Kind: "req.head", Req: r.resp.ReqID, Status: code})
}
func (r *recorder) Write(b []byte) (int, error) {
	if !r.wrote {
		r.WriteHeader(200)
	}
	r.body.Write(b)
	return len(b), nil
}
func (r *recorder) Flush() {
	if !r.wrote {
		r.WriteHeader(200)
	}
	r.w.H.Add(Event{Kind: "req.flush", Req: r.resp.ReqID, N: r.body.Len()})
}

func (r *recorder) Hijack() (net.Conn, *bufio.ReadWriter, error) {
	if r.hijacked {
		return nil, nil, errors.New("already hijacked")
	}
	r.hijacked = true
	r.resp.Hijacked = true
	id := "up/" + r.resp.ReqID
	cli, srv := r.w.Net.newPair(id, Addr("10.9.9.9:1"), Addr("proxy:80"))
	rid := r.resp.ReqID
	w := r.w
	abort := r.abort
	w.H.Add(Event{Kind: "req.hijack", Req: rid})
	r.clientDone = make(chan struct{})
	go func() { // the client end of the upgraded connection
		defer close(r.clientDone)
		var t <-chan time.Time
		if abort > 0 {
			tm := w.S.NewTimer(abort)
			defer tm.Stop()
			t = tm.C
		}
		done := make(chan struct{})
		go func() {
			br := bufio.NewReader(cli)
			resp, err := http.ReadResponse(br, nil)
			if err == nil {
				w.mu.Lock()
				r.resp.Status = resp.StatusCode
				r.resp.Header = resp.Header
				r.resp.ServedBy = resp.Header.Get("X-Served-By")
				r.resp.HeadT = w.S.Now()
				w.mu.Unlock()
				w.H.Add(Event{Kind: "req.head", Req: rid, Status: resp.StatusCode})
				io.Copy(io.Discard, br)
			}
			w.H.Add(Event{Kind: "req.upclosed", Req: rid})
			close(done)
		}()
		select {
		case <-done:
		case <-t:
			w.H.Add(Event{Kind: "req.upabort", Req: rid})
			cli.Close()
			<-done
		}
		cli.Close()
	}()
	return srv, bufio.NewReadWriter(bufio.NewReader(srv), bufio.NewWriter(srv)), nil
}

func (w *World) newReqID(actor string, idx int) string {
	return fmt.Sprintf("%s-%d", actor, idx)
}

func (w *World) doRequest(actor string, idx int, op *Op) {
	rid := w.newReqID(actor, idx)
	if op.Router != "" && op.Router != "A" {
		rid += "@" + op.Router
	}
	w.doRequestID(actor, idx, op, rid)
}

func (w *World) doRequestID(actor string, idx int, op *Op, rid string) *Response {
	ri := w.router(op.Router)
	method := op.Method
	if method == "" {
		method = "GET"
	}
	uri := op.Path
	if uri == "" {
		uri = "/"
	}
	var body io.Reader
	if op.Body != "" {
		body = strings.NewReader(op.Body)
	}
	ctx, cancel := context.WithCancel(context.Background())
	defer cancel()
	req, err := http.NewRequestWithContext(ctx, method, "http://placeholder"+uri, body)
	resp := &Response{ReqID: rid, Op: op, Actor: actor, OpIdx: idx}
	w.mu.Lock()
	w.Responses = append(w.Responses, resp)
	w.mu.Unlock()
	if err != nil {
		resp.Err = "bad request: " + err.Error()
		return resp
	}
	req.RequestURI = uri
	if req.Body == nil {
		req.Body = http.NoBody // a server-side request never has a nil body
	}
	host := op.Host
	if host == "" {
		host = "example.test"
	}
	req.Host = host
	req.URL.Host = ""
	req.URL.Scheme = ""
	req.RemoteAddr = "10.2.0.1:5555"
	req.Header.Set("X-Request-Id", rid)
	if op.Sim != "" {
		req.Header.Set("X-Sim", op.Sim)
	}
	if op.Cookie != "" {
		req.Header.Set("Cookie", op.Cookie)
	}
	for _, h := range op.Headers {
		req.Header.Add(h[0], h[1])
	}
	if op.Upgrade {
		req.Header.Set("Connection", "Upgrade")
		req.Header.Set("Upgrade", "websocket")
	}
	if op.TLS {
		req.TLS = &tls.ConnectionState{}
	}
	rec := &recorder{w: w, resp: resp, hdr: http.Header{}}
	if op.Upgrade {
		rec.abort = op.AbortAfter
	} else if op.AbortAfter > 0 {
		tm := w.S.AfterFunc(op.AbortAfter, func() {
			w.H.Add(Event{Kind: "req.abort", Req: rid})
			cancel()
		})
		defer tm.Stop()
	}
	resp.CallT = w.S.Now()
	resp.Call = w.H.Add(Event{Kind: "req.call", Actor: actor, Op: idx, Req: rid, Info: method + " " + host + uri, Task: ri.Name})
	func() {
		defer func() {
			if p := recover(); p != nil {
				if p == http.ErrAbortHandler {
					resp.Err = "aborted"
				} else {
					resp.Err = fmt.Sprintf("PANIC: %v | %s", p, shortStack())
				}
			}
		}()
		ri.Handler.ServeHTTP(rec, req)
	}()
	if rec.hijacked {
		<-rec.clientDone // the client end has seen the close; its observations are complete
	}
	if !rec.hijacked {
		if !rec.wrote {
			rec.WriteHeader(200)
		}
		resp.Body = rec.body.Bytes()
		resp.ServedBy = resp.Header.Get("X-Served-By")
	}
	resp.RetT = w.S.Now()
	resp.Ret = w.H.Add(Event{Kind: "req.ret", Actor: actor, Op: idx, Req: rid, Status: resp.Status, Target: resp.ServedBy, N: len(resp.Body), Err: resp.Err})
	return resp
}

// ---- server-mode raw requests ---------------------------------------------

// doRawRequest writes the op's raw bytes (or a request assembled from its
// fields) to a fresh connection to the proxy's http.Server and reads whatever
// comes back until the connection closes or a complete response was parsed.
func (w *World) doRawRequest(actor string, idx int, op *Op) {
	ri := w.router(op.Router)
	rid := w.newReqID(actor, idx)
	resp := &Response{ReqID: rid, Op: op, Actor: actor, OpIdx: idx}
	w.mu.Lock()
	w.Responses = append(w.Responses, resp)
	w.mu.Unlock()
	raw := op.Raw
	if raw == "" {
		raw = BuildRaw(op, rid)
	} else {
		raw = strings.ReplaceAll(raw, "{RID}", rid)
	}
	resp.CallT = w.S.Now()
	if op.Hold != nil {
		h := *op.Hold
		if h.Max <= 0 {
			h.Max = 2 * time.Second
		}
		w.mu.Lock()
		if w.reqHolds == nil {
			w.reqHolds = map[string]*Hold{}
		}
		w.reqHolds[rid] = &h
		w.mu.Unlock()
	}
	resp.Call = w.H.Add(Event{Kind: "req.call", Actor: actor, Op: idx, Req: rid, Info: firstLine(raw), Task: ri.Name})
	finish := func() {
		resp.RetT = w.S.Now()
		resp.Ret = w.H.Add(Event{Kind: "req.ret", Actor: actor, Op: idx, Req: rid, Status: resp.Status, Target: resp.ServedBy, N: len(resp.Body), Err: resp.Err})
	}
	c, err := w.Net.Dial(context.Background(), "client", "10.2.0."+fmt.Sprint(1+idx%200), string(ri.Listener.addr))
	if err != nil {
		resp.Err = "dial: " + err.Error()
		finish()
		return
	}
	defer c.Close()
	if op.Frag > 0 {
		c.SetLink(Link{Frag: op.Frag, FragGap: op.FragGap})
		w.H.Add(Event{Kind: "fault", Req: rid, Info: "fragmented-delivery"})
	}
	if _, err := c.Write([]byte(raw)); err != nil {
		resp.Err = "write: " + err.Error()
		finish()
		return
	}
	if len(op.Parts) > 0 {
		parts, gap := op.Parts, op.PartGap
		go func() { // the body trickles in while the response side is read below
			for i, part := range parts {
				w.S.Sleep(gap)
				if _, err := c.Write([]byte(part)); err != nil {
					return
				}
				w.H.Add(Event{Kind: "req.part", Req: rid, N: len(part), Op: i})
			}
		}()
	}
	if op.AbortAfter > 0 {
		tm := w.S.AfterFunc(op.AbortAfter, func() {
			w.H.Add(Event{Kind: "req.abort", Req: rid})
			c.Close()
		})
		defer tm.Stop()
	}
	tee := &teeReader{r: c}
	br := bufio.NewReader(tee)
	hr, err := http.ReadResponse(br, &http.Request{Method: methodOf(raw)})
	if err != nil {
		resp.Err = "read: " + err.Error()
		resp.Raw = append([]byte(nil), tee.buf.Bytes()...)
		finish()
		return
	}
	resp.Status = hr.StatusCode
	resp.Header = hr.Header
	resp.HeadT = w.S.Now()
	resp.ServedBy = hr.Header.Get("X-Served-By")
	w.H.Add(Event{Kind: "req.head", Req: rid, Status: hr.StatusCode})
	if hr.StatusCode == 101 {
		resp.Hijacked = true
		io.Copy(io.Discard, br)
		w.H.Add(Event{Kind: "req.upclosed", Req: rid})
		resp.Clean = true
		finish()
		return
	}
	body, berr := io.ReadAll(hr.Body)
	resp.Body = body
	if berr != nil {
		resp.Err = "body: " + berr.Error()
	} else {
		resp.Clean = true
	}
	resp.Raw = append([]byte(nil), tee.buf.Bytes()...)
	finish()
}

func firstLine(s string) string {
	if i := strings.Index(s, "\r\n"); i >= 0 {
		return s[:i]
	}
	return s
}

func methodOf(raw string) string {
	if i := strings.Index(raw, " "); i > 0 {
		return raw[:i]
	}
	return "GET"
}

// BuildRaw assembles an HTTP/1.1 request from the op's fields.
func BuildRaw(op *Op, rid string) string {
	method := op.Method
	if method == "" {
		method = "GET"
	}
	uri := op.Path
	if uri == "" {
		uri = "/"
	}
	host := op.Host
	if host == "" {
		host = "example.test"
	}
	var b strings.Builder
	fmt.Fprintf(&b, "%s %s HTTP/1.1\r\nHost: %s\r\n", method, uri, host)
	if !op.NoReqID {
		fmt.Fprintf(&b, "X-Request-Id: %s\r\n", rid)
	}
	if op.Sim != "" {
		fmt.Fprintf(&b, "X-Sim: %s\r\n", op.Sim)
	}
	if op.Cookie != "" {
		fmt.Fprintf(&b, "Cookie: %s\r\n", op.Cookie)
	}
	for _, h := range op.Headers {
		fmt.Fprintf(&b, "%s: %s\r\n", h[0], h[1])
	}
	if op.Upgrade {
		b.WriteString("Connection: Upgrade\r\nUpgrade: websocket\r\n")
	} else {
		b.WriteString("Connection: close\r\n")
	}
	if op.Body != "" || method == "POST" || method == "PUT" {
		fmt.Fprintf(&b, "Content-Length: %d\r\n", len(op.Body))
	}
	b.WriteString("\r\n")
	b.WriteString(op.Body)
	return b.String()
}

// ---- teardown -------------------------------------------------------------

// Teardown stops everything the run started so that the bubble can exit.
func (w *World) Teardown() {
	w.mu.Lock()
	hcs := w.hcs
	routers := make([]*RouterInst, 0, len(w.Routers))
	for _, r := range w.Routers {
		routers = append(routers, r)
	}
	w.mu.Unlock()
	for _, ri := range routers {
		if ri.Srv != nil {
			ri.Srv.Close()
			ri.Listener.Close()
		}
	}
	for _, hc := range hcs {
		hc.Close()
	}
	w.Net.CloseAll()
	w.probeTr.CloseIdleConnections()
}

func (w *World) Cleanup() {
	os.RemoveAll(w.Dir)
}

// ---- helpers for oracles ---------------------------------------------------

func (w *World) ResponseByID(id string) *Response {
	for _, r := range w.Responses {
		if r.ReqID == id {
			return r
		}
	}
	return nil
}

// ParsedState parses a state file into a canonical, order-independent form.
type SvcState struct {
	Name      string        `json:"name"`
	Hosts     []string      `json:"hosts"`
	Paths     []string      `json:"paths"`
	Active    []string      `json:"active"`
	Rollout   []string      `json:"rollout"`
	Pause     int           `json:"pause"`
	StopMsg   string        `json:"stop_msg"`
	FailAfter time.Duration `json:"fail_after"`
	HasSplit  bool          `json:"has_split"`
	Percent   int           `json:"percent"`
	Allow     []string      `json:"allow"`
	TLS       bool          `json:"tls"`
	Strip     bool          `json:"strip"`
	Opts      string        `json:"-"` // raw options JSON (all service options)
	TOpts     string        `json:"-"` // raw target options JSON
}

func ParseState(b []byte) ([]SvcState, error) {
	var raw []struct {
		Name    string `json:"name"`
		Options struct {
			Hosts        []string `json:"hosts"`
			PathPrefixes []string `json:"path_prefixes"`
			TLSEnabled   bool     `json:"tls_enabled"`
			StripPrefix  bool     `json:"strip_prefix"`
		} `json:"options"`
		ActiveTargets   []string `json:"active_targets"`
		RolloutTargets  []string `json:"rollout_targets"`
		PauseController *struct {
			State       int           `json:"state"`
			StopMessage string        `json:"stop_message"`
			FailAfter   time.Duration `json:"fail_after"`
		} `json:"pause_controller"`
		RolloutController *struct {
			Percentage int      `json:"percentage"`
			Allowlist  []string `json:"allowlist"`
		} `json:"rollout_controller"`
	}
	if err := json.Unmarshal(b, &raw); err != nil {
		return nil, err
	}
	var out []SvcState
	for _, r := range raw {
		s := SvcState{Name: r.Name, Hosts: r.Options.Hosts, Paths: r.Options.PathPrefixes, Active: r.ActiveTargets, Rollout: r.RolloutTargets, TLS: r.Options.TLSEnabled, Strip: r.Options.StripPrefix}
		if r.PauseController != nil {
			s.Pause, s.StopMsg, s.FailAfter = r.PauseController.State, r.PauseController.StopMessage, r.PauseController.FailAfter
		}
		if r.RolloutController != nil {
			s.HasSplit, s.Percent, s.Allow = true, r.RolloutController.Percentage, r.RolloutController.Allowlist
		}
		out = append(out, s)
	}
	var rawMaps []map[string]json.RawMessage
	if json.Unmarshal(b, &rawMaps) == nil && len(rawMaps) == len(out) {
		for i := range out {
			// paths of generated files differ between routers: keep options
			// comparable by dropping the run directory
			out[i].Opts = string(rawMaps[i]["options"])
			out[i].TOpts = string(rawMaps[i]["target_options"])
		}
	}
	sort.Slice(out, func(i, j int) bool { return out[i].Name < out[j].Name })
	return out, nil
}

// shortStack returns the repo frames of the current (panicking) stack.
func shortStack() string {
	var keep []string
	lines := strings.Split(string(debug.Stack()), "\n")
	for i := 0; i+1 < len(lines); i++ {
		if strings.Contains(lines[i], "kamal-proxy/internal/") {
			fn := lines[i]
			if j := strings.LastIndex(fn, "/"); j >= 0 {
				fn = fn[j+1:]
			}
			loc := strings.TrimSpace(lines[i+1])
			if j := strings.LastIndex(loc, "/"); j >= 0 {
				loc = loc[j+1:]
			}
			if j := strings.Index(loc, " "); j >= 0 {
				loc = loc[:j]
			}
			keep = append(keep, fn+"@"+loc)
			if len(keep) >= 5 {
				break
			}
		}
	}
	return strings.Join(keep, " < ")
}

// sortStateFile reorders the services of a state file by name; content that
// does not parse is returned unchanged.
func sortStateFile(b []byte) []byte {
	var svcs []json.RawMessage
	if json.Unmarshal(b, &svcs) != nil {
		return b
	}
	name := func(r json.RawMessage) string {
		var x struct {
			Name string `json:"name"`
		}
		json.Unmarshal(r, &x)
		return x.Name
	}
	sort.SliceStable(svcs, func(i, j int) bool { return name(svcs[i]) < name(svcs[j]) })
	out, err := json.Marshal(svcs)
	if err != nil {
		return b
	}
	return out
}

var (
	currentWorld  atomic.Pointer[World]
	raceHooksOnce sync.Once
)

type roundTripFunc func(*http.Request) (*http.Response, error)

func (f roundTripFunc) RoundTrip(r *http.Request) (*http.Response, error) { return f(r) }
