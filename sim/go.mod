module github.com/basecamp/kamal-proxy/verif

go 1.24.2

require (
	github.com/anishathalye/porcupine v1.3.0
	github.com/basecamp/kamal-proxy v0.0.0
)

require (
	github.com/davecgh/go-spew v1.1.1 // indirect
	github.com/google/uuid v1.6.0 // indirect
	github.com/pmezard/go-difflib v1.0.0 // indirect
	github.com/stretchr/testify v1.10.0 // indirect
	golang.org/x/crypto v0.36.0 // indirect
	golang.org/x/net v0.37.0 // indirect
	golang.org/x/text v0.23.0 // indirect
	gopkg.in/yaml.v3 v3.0.1 // indirect
)

replace github.com/basecamp/kamal-proxy => /repo
