package sim

import (
	"encoding/base64"
	"encoding/json"
	"fmt"
	"math/rand"
	"strconv"
	"strings"
	"time"
)

// C13 — requests and responses pass through unaltered.
// Server mode; an echo target reports the request head exactly as it arrived.
// The rewrite itself is a pure function of the request: the simulation adds
// concurrency (shared buffer pool, connection reuse) and fragmented delivery;
// the byte-string space is sampled.

func init() {
	Register(&Prop{
		ID:    "C13",
		Gen:   genC13,
		Check: checkC13,
		Nontrivial: func(r *RunResult) bool {
			return r.Probes["encoded_or_odd_component"] > 0 && r.Probes["fragmented"] > 0
		},
	})
}

var c13Segments = []string{"a", "b%20c", "x%2Fy", "%41", "%C3%A9", "%25", "app", "..%2F", "a;b", "a=b", "~t", "a+b", "%7e", "a,b", "@", "a:b", "-._", "%E2%9C%93", "%2e", "%3F"}
var c13Queries = []string{"", "a=1", "p=a;b", "a=1&b=2", "%", "a=%zz", "x=%41%2F", "&&", "=", "a=b=c", "q=hello+world", "u=%C3%A9", "k", "a=1;b=2;c", "%%%", "x=1&x=2", "redirect=http://e/?a=b"}
var c13Methods = []string{"GET", "GET", "POST", "PUT", "DELETE", "PATCH", "OPTIONS"}
var c13HeaderNames = []string{"X-Custom", "x-lower", "X-UPPER", "Accept", "Accept-Language", "Authorization", "Cache-Control", "X-Multi", "Referer", "Cookie", "If-None-Match", "X-Empty"}
var c13HeaderValues = []string{"1", "a b  c", "\"quoted\"", "a, b, c", "text/html;q=0.9, */*;q=0.8", "Bearer abc.def-ghi", "é ü", "x=1; y=2", "", "W/\"etag\"", "%41%2F", "{{.}} <b>"}

var hopByHop = map[string]bool{"connection": true, "keep-alive": true, "proxy-connection": true, "proxy-authenticate": true, "proxy-authorization": true, "te": true, "trailer": true, "transfer-encoding": true, "upgrade": true}

func genC13(seed int64, tier string) *Scenario {
	rng := rand.New(rand.NewSource(seed))
	sc := &Scenario{Prop: "C13", Seed: seed, Server: true, Params: map[string]int{}}
	sc.Sched = genSched(rng, tier, false)
	sc.Sched.MaxSteps = 40000
	sc.HC = HCKnobs{Interval: 30 * time.Second, Timeout: time.Second, TargetTimeout: 2 * time.Second}
	strip, fwd := rng.Intn(2) == 0, rng.Intn(2) == 0
	sc.Params["strip"], sc.Params["fwd"] = b2i(strip), b2i(fwd)
	main := ActorSpec{Name: "main"}
	sc.Targets = append(sc.Targets, TargetSpec{Addr: "plain1:80", Link: Link{Frag: pick(rng, 0, 0, 7, 33), FragGap: time.Millisecond}}, TargetSpec{Addr: "app1:80", Link: Link{Frag: pick(rng, 0, 0, 11), FragGap: time.Millisecond}})
	tgt := &TgtOpts{ForwardHeaders: fwd}
	main.Ops = append(main.Ops, Op{Kind: "deploy", Service: "plain", Hosts: []string{"plain.test"}, Targets: []string{"plain1:80"}, DeployTimeout: 3 * time.Second, DrainTimeout: 300 * time.Millisecond, Tgt: tgt})
	main.Ops = append(main.Ops, Op{Kind: "deploy", Service: "app", Hosts: []string{"plain.test", "app.test"}, Paths: []string{"/app"}, Targets: []string{"app1:80"}, DeployTimeout: 3 * time.Second, DrainTimeout: 300 * time.Millisecond, Svc: &SvcOpts{StripPrefix: strip}, Tgt: tgt})
	sc.Actors = append(sc.Actors, main)
	nc := 1 + rng.Intn(4)
	for c := 0; c < nc; c++ {
		a := ActorSpec{Name: fmt.Sprintf("client%d", c)}
		n := 2 + rng.Intn(5)
		for i := 0; i < n; i++ {
			o := Op{Kind: "request", Delay: time.Duration(rng.Intn(30)) * time.Millisecond}
			if i == 0 {
				o.Delay += 300 * time.Millisecond
			}
			if rng.Intn(3) == 0 {
				o.Frag, o.FragGap = 1+rng.Intn(40), time.Duration(1+rng.Intn(3))*time.Millisecond
			}
			if rng.Intn(4) == 0 {
				o.Raw, o.Tag = genResponseProbe(rng), "response"
			} else {
				o.Raw, o.Tag = genEchoRequest(rng), "echo"
			}
			a.Ops = append(a.Ops, o)
		}
		sc.Actors = append(sc.Actors, a)
	}
	return sc
}

func genEchoRequest(rng *rand.Rand) string {
	var b strings.Builder
	method := c13Methods[rng.Intn(len(c13Methods))]
	path := ""
	app := rng.Intn(2) == 0
	if app {
		path = "/app"
	}
	nseg := rng.Intn(5)
	for i := 0; i < nseg; i++ {
		path += "/" + c13Segments[rng.Intn(len(c13Segments))]
		if rng.Intn(8) == 0 {
			path += "/"
		}
	}
	if rng.Intn(5) == 0 {
		path += "/"
	}
	if path == "" {
		path = "/"
	}
	uri := path
	if q := c13Queries[rng.Intn(len(c13Queries))]; q != "" {
		uri += "?" + q
	}
	host := pick(rng, "plain.test", "plain.test:8080", "plain.test")
	if app && rng.Intn(2) == 0 {
		host = "app.test"
	}
	fmt.Fprintf(&b, "%s %s HTTP/1.1\r\nHost: %s\r\n", method, uri, host)
	if rng.Intn(4) != 0 {
		b.WriteString("X-Request-Id: {RID}\r\n")
	}
	b.WriteString("X-Sim: mode=echo\r\n")
	nh := rng.Intn(6)
	for i := 0; i < nh; i++ {
		name := c13HeaderNames[rng.Intn(len(c13HeaderNames))]
		fmt.Fprintf(&b, "%s: %s\r\n", name, c13HeaderValues[rng.Intn(len(c13HeaderValues))])
	}
	if rng.Intn(3) == 0 {
		fmt.Fprintf(&b, "X-Forwarded-For: %s\r\n", pick(rng, "1.2.3.4", "9.9.9.9, 8.8.8.8"))
		if rng.Intn(2) == 0 { // a second header line
			fmt.Fprintf(&b, "X-Forwarded-For: %s\r\n", pick(rng, "7.7.7.7", "6.6.6.6, 5.5.5.5"))
		}
	}
	if rng.Intn(3) == 0 {
		fmt.Fprintf(&b, "X-Forwarded-Proto: %s\r\n", pick(rng, "https", "ftp"))
	}
	if rng.Intn(3) == 0 {
		fmt.Fprintf(&b, "X-Forwarded-Host: %s\r\n", pick(rng, "evil.test", "orig.example"))
	}
	if rng.Intn(4) == 0 {
		b.WriteString("X-Request-Start: t=12345\r\n")
	}
	if rng.Intn(5) == 0 { // hop-by-hop: must not be forwarded
		b.WriteString("Connection: close, X-Hop\r\nX-Hop: 1\r\nKeep-Alive: timeout=5\r\n")
	} else {
		b.WriteString("Connection: close\r\n")
	}
	body := ""
	if method == "POST" || method == "PUT" || method == "PATCH" || rng.Intn(6) == 0 {
		n := rng.Intn(300)
		var sb strings.Builder
		for i := 0; i < n; i++ {
			sb.WriteByte(byte(rng.Intn(256)))
		}
		body = sb.String()
		if rng.Intn(2) == 0 {
			fmt.Fprintf(&b, "Content-Length: %d\r\n\r\n%s", len(body), body)
		} else {
			b.WriteString("Transfer-Encoding: chunked\r\n\r\n")
			for off := 0; off < len(body); {
				k := 1 + rng.Intn(64)
				if off+k > len(body) {
					k = len(body) - off
				}
				fmt.Fprintf(&b, "%x\r\n%s\r\n", k, body[off:off+k])
				off += k
			}
			b.WriteString("0\r\n\r\n")
		}
	} else {
		b.WriteString("\r\n")
	}
	return b.String()
}

func genResponseProbe(rng *rand.Rand) string {
	status := pick(rng, 200, 201, 202, 204, 301, 304, 400, 404, 418, 500, 502, 503, 504)
	size := rng.Intn(600)
	if status == 204 || status == 304 {
		size = 0
	}
	sim := fmt.Sprintf("status=%d;size=%d", status, size)
	if rng.Intn(2) == 0 {
		sim += ";hdr=X-Multi:one;hdr=X-Multi:two"
	}
	if rng.Intn(2) == 0 {
		sim += ";hdr=Set-Cookie:a=1;hdr=Set-Cookie:b=2"
	}
	if status == 301 {
		sim += ";hdr=Location:http://elsewhere.test/x?y=1"
	}
	if rng.Intn(3) == 0 {
		sim += ";hdr=Content-Type:application/x-thing"
	}
	return fmt.Sprintf("GET /resp%d HTTP/1.1\r\nHost: plain.test\r\nX-Request-Id: {RID}\r\nX-Sim: %s\r\nConnection: close\r\n\r\n", rng.Intn(1000), sim)
}

type rawReq struct {
	method, uri string
	headers     [][2]string
	body        string
}

func parseRawRequest(raw string) (rawReq, bool) {
	var rr rawReq
	head, rest, ok := strings.Cut(raw, "\r\n\r\n")
	if !ok {
		return rr, false
	}
	lines := strings.Split(head, "\r\n")
	parts := strings.SplitN(lines[0], " ", 3)
	if len(parts) != 3 {
		return rr, false
	}
	rr.method, rr.uri = parts[0], parts[1]
	chunked := false
	for _, l := range lines[1:] {
		n, v, _ := strings.Cut(l, ":")
		v = strings.TrimSpace(v)
		rr.headers = append(rr.headers, [2]string{n, v})
		if strings.EqualFold(n, "Transfer-Encoding") && strings.Contains(v, "chunked") {
			chunked = true
		}
	}
	if chunked {
		var body strings.Builder
		for {
			line, after, ok := strings.Cut(rest, "\r\n")
			if !ok {
				return rr, false
			}
			k, err := strconv.ParseInt(strings.TrimSpace(line), 16, 64)
			if err != nil || int(k) > len(after) {
				return rr, false
			}
			if k == 0 {
				break
			}
			body.WriteString(after[:k])
			rest = after[k+2:]
		}
		rr.body = body.String()
	} else {
		rr.body = rest
	}
	return rr, true
}

func hdrValues(hs [][2]string, name string) []string {
	var out []string
	for _, h := range hs {
		if strings.EqualFold(h[0], name) {
			out = append(out, h[1])
		}
	}
	return out
}

func checkC13(r *RunResult) []Violation {
	var out []Violation
	w := r.W
	strip, fwd := r.Sc.Params["strip"] != 0, r.Sc.Params["fwd"] != 0
	add := func(clause, sig, msg string) {
		out = append(out, Violation{Prop: "C13", Clause: clause, Sig: sig, Msg: msg})
	}
	seenIDs := map[string]string{}
	for _, q := range w.Responses {
		if q.Actor == "main" || q.Ret == 0 {
			continue
		}
		raw := strings.ReplaceAll(q.Op.Raw, "{RID}", q.ReqID)
		sent, ok := parseRawRequest(raw)
		if !ok {
			continue
		}
		if q.Op.Frag > 0 {
			r.Probes["fragmented"]++
		}
		if q.Op.Tag == "response" {
			checkC13Response(r, q, sent, add)
			continue
		}
		if q.Status == 400 {
			r.Probes["rejected_by_go_http_server"]++ // outside the property
			continue
		}
		if q.Status != 200 || !q.Clean {
			add("echo-request-failed", fmt.Sprint(q.Status), fmt.Sprintf("request %s (%s %s) got status %d err=%q", q.ReqID, sent.method, sent.uri, q.Status, q.Err))
			continue
		}
		var rec EchoRecord
		if err := json.Unmarshal(q.Body, &rec); err != nil {
			add("echo-request-failed", "", fmt.Sprintf("request %s: echo body unreadable: %v", q.ReqID, err))
			continue
		}
		got, ok := parseRawRequest(strings.Replace(rec.RawHead, "Transfer-Encoding", "X-Framing-Transfer-Encoding", 1))
		if !ok {
			add("echo-request-failed", "", "unparsable head at target: "+trunc(rec.RawHead, 100))
			continue
		}
		gotBody, _ := base64.StdEncoding.DecodeString(rec.BodyB64)
		if strings.ContainsAny(sent.uri, "%;") || strings.Contains(sent.uri, "//") {
			r.Probes["encoded_or_odd_component"]++
		}
		if got.method != sent.method {
			add("method-changed", "", fmt.Sprintf("request %s: sent %s, target saw %s", q.ReqID, sent.method, got.method))
		}
		// path and query
		wantURI := sent.uri
		if strip && rec.Target == "app1:80" {
			p, qs, hasQ := strings.Cut(sent.uri, "?")
			p = strings.TrimPrefix(p, "/app")
			if p == "" {
				p = "/"
			}
			wantURI = p
			if hasQ {
				wantURI += "?" + qs
			}
			r.Probes["stripped"]++
		}
		if got.uri != wantURI {
			sig := "path"
			sp, sq, _ := strings.Cut(wantURI, "?")
			gp, gq, _ := strings.Cut(got.uri, "?")
			if sp == gp && sq != gq {
				sig = "query"
			}
			add("request-target-changed", sig, fmt.Sprintf("request %s: client sent %q, expected the target to see %q, it saw %q (strip=%v)", q.ReqID, sent.uri, wantURI, got.uri, strip && rec.Target == "app1:80"))
		}
		// host
		if h := hdrValues(got.headers, "Host"); len(h) != 1 || h[0] != hdrValues(sent.headers, "Host")[0] {
			add("host-changed", "", fmt.Sprintf("request %s: sent Host %q, target saw %q", q.ReqID, hdrValues(sent.headers, "Host"), h))
		}
		// end-to-end headers
		named := map[string]bool{}
		for _, v := range hdrValues(sent.headers, "Connection") {
			for _, t := range strings.Split(v, ",") {
				named[strings.ToLower(strings.TrimSpace(t))] = true
			}
		}
		checked := map[string]bool{}
		for _, h := range sent.headers {
			ln := strings.ToLower(h[0])
			if checked[ln] {
				continue
			}
			checked[ln] = true
			switch {
			case ln == "host" || ln == "content-length" || ln == "x-forwarded-for" || ln == "x-forwarded-proto" || ln == "x-forwarded-host":
				continue
			case hopByHop[ln] || named[ln]:
				if g := hdrValues(got.headers, h[0]); len(g) > 0 && ln != "connection" && ln != "transfer-encoding" {
					add("hop-by-hop-header-forwarded", ln, fmt.Sprintf("request %s: hop-by-hop header %s reached the target: %q", q.ReqID, h[0], g))
				}
				continue
			}
			want, g := hdrValues(sent.headers, h[0]), hdrValues(got.headers, h[0])
			if strings.Join(want, "\x00") != strings.Join(g, "\x00") {
				add("header-changed", ln, fmt.Sprintf("request %s: header %s sent as %q, target saw %q", q.ReqID, h[0], want, g))
			}
		}
		// forwarding headers
		clientIP := "10.2.0." + fmt.Sprint(1+q.OpIdx%200)
		xff := strings.Join(hdrValues(got.headers, "X-Forwarded-For"), ", ")
		wantXFF := clientIP
		if fwd {
			if c := hdrValues(sent.headers, "X-Forwarded-For"); len(c) > 0 {
				wantXFF = strings.Join(c, ", ") + ", " + clientIP
			}
		}
		if xff != wantXFF {
			add("x-forwarded-for", fmt.Sprint(fwd), fmt.Sprintf("request %s: X-Forwarded-For at the target is %q, expected %q (forward-headers=%v)", q.ReqID, xff, wantXFF, fwd))
		}
		wantProto, wantHost := "http", hdrValues(sent.headers, "Host")[0]
		if fwd {
			if c := hdrValues(sent.headers, "X-Forwarded-Proto"); len(c) > 0 {
				wantProto = c[0]
			}
			if c := hdrValues(sent.headers, "X-Forwarded-Host"); len(c) > 0 {
				wantHost = c[0]
			}
		}
		if g := strings.Join(hdrValues(got.headers, "X-Forwarded-Proto"), ","); g != wantProto {
			add("x-forwarded-proto", fmt.Sprint(fwd), fmt.Sprintf("request %s: X-Forwarded-Proto %q, expected %q", q.ReqID, g, wantProto))
		}
		if g := strings.Join(hdrValues(got.headers, "X-Forwarded-Host"), ","); g != wantHost {
			add("x-forwarded-host", fmt.Sprint(fwd), fmt.Sprintf("request %s: X-Forwarded-Host %q, expected %q", q.ReqID, g, wantHost))
		}
		// request id and start
		ids := hdrValues(got.headers, "X-Request-Id")
		if c := hdrValues(sent.headers, "X-Request-Id"); len(c) > 0 {
			if len(ids) != 1 || ids[0] != c[0] {
				add("request-id", "", fmt.Sprintf("request %s: client sent X-Request-ID %q, target saw %q", q.ReqID, c, ids))
			}
		} else if len(ids) != 1 || ids[0] == "" {
			add("request-id", "", fmt.Sprintf("request %s: no X-Request-ID was added: %q", q.ReqID, ids))
		} else if prev, dup := seenIDs[ids[0]]; dup {
			add("request-id", "", fmt.Sprintf("requests %s and %s got the same generated X-Request-ID %q", prev, q.ReqID, ids[0]))
		} else {
			seenIDs[ids[0]] = q.ReqID
			r.Probes["generated_request_ids"]++
		}
		if st := hdrValues(got.headers, "X-Request-Start"); len(st) != 1 || st[0] == "" {
			add("request-start", "", fmt.Sprintf("request %s: X-Request-Start at the target: %q", q.ReqID, st))
		}
		if string(gotBody) != sent.body {
			add("body-changed", "", fmt.Sprintf("request %s: sent a body of %d bytes, the target received %d bytes (differs)", q.ReqID, len(sent.body), len(gotBody)))
		}
		r.Probes["echo_checked"]++
	}
	return out
}

func checkC13Response(r *RunResult, q *Response, sent rawReq, add func(clause, sig, msg string)) {
	d := parseSim(hdrValues(sent.headers, "X-Sim")[0])
	if !q.Clean {
		add("response-not-delivered", "", fmt.Sprintf("request %s: target answered %d, client saw err=%q status=%d", q.ReqID, d.Status, q.Err, q.Status))
		return
	}
	if q.Status != d.Status {
		add("status-changed", fmt.Sprintf("%d->%d", d.Status, q.Status), fmt.Sprintf("request %s: target sent status %d, client received %d", q.ReqID, d.Status, q.Status))
		return
	}
	want := []byte(q.ServedBy + "|" + q.ReqID + "|")
	for len(want) < d.Size {
		want = append(want, byte('a'+len(want)%26))
	}
	if d.Status == 204 || d.Status == 304 {
		want = nil
	}
	if d.Status != 204 && d.Status != 304 && string(q.Body) != string(want) {
		add("response-body-changed", fmt.Sprint(d.Status), fmt.Sprintf("request %s: target sent %d body bytes, client received %d (differs)", q.ReqID, len(want), len(q.Body)))
	}
	byName := map[string][]string{}
	for _, h := range d.Headers {
		byName[h[0]] = append(byName[h[0]], h[1])
	}
	for n, vs := range byName {
		if d.Status == 304 && strings.EqualFold(n, "Content-Type") {
			continue // net/http's server suppresses it for 304 (message framing rules)
		}
		if g := q.Header.Values(n); strings.Join(g, "\x00") != strings.Join(vs, "\x00") {
			add("response-header-changed", strings.ToLower(n), fmt.Sprintf("request %s: target sent %s %q, client received %q", q.ReqID, n, vs, g))
		}
	}
	if q.Header.Get("X-Served-By") == "" {
		add("response-header-changed", "x-served-by", fmt.Sprintf("request %s: header X-Served-By lost", q.ReqID))
	}
	r.Probes["response_checked"]++
}
