package sim

import (
	"fmt"
	"math/rand"
	"strings"
	"time"
)

// C19 — each request yields one access-log record that matches what happened.
// Server mode, full handler chain, slog records captured through the logger
// installed with slog.SetDefault before the chain is built.

func init() {
	Register(&Prop{
		ID:    "C19",
		Gen:   genC19,
		Check: checkC19,
		Nontrivial: func(r *RunResult) bool {
			return r.Probes["records_matched"] >= 3 && r.Probes["endings"] >= 3
		},
	})
}

var c19Kinds = []string{"fault-close-before", "served", "served-post", "notfound", "paused-out", "stopped", "redirect", "too-large-request", "too-large-response",
	"fault-garbage", "fault-timeout", "fault-cut-body", "abort-before-headers", "abort-mid-stream", "upgrade", "sse", "abort-after-headers", "raced-by-stop"}

func genC19(seed int64, tier string) *Scenario {
	rng := rand.New(rand.NewSource(seed))
	sc := &Scenario{Prop: "C19", Seed: seed, Server: true, Params: map[string]int{}}
	sc.Sched = genSched(rng, tier, false)
	sc.Sched.MaxSteps = 40000
	sc.HC = HCKnobs{Interval: 30 * time.Second, Timeout: time.Second, TargetTimeout: 800 * time.Millisecond}
	logReq := [][]string{nil, {"X-Custom"}, {"x-custom", "User-Agent", "X-Absent"}}[rng.Intn(3)]
	logResp := [][]string{nil, {"X-Served-By"}, {"content-type", "X-Extra"}}[rng.Intn(3)]
	bufReq, bufResp := rng.Intn(2) == 0, rng.Intn(2) == 0
	tgt := &TgtOpts{BufferRequests: bufReq, BufferResponses: bufResp, MaxMem: int64(pick(rng, 8, 1024)), MaxReq: 300, MaxResp: 400, LogReqHeaders: logReq, LogRespHeaders: logResp}
	sc.Params["buf_req"], sc.Params["buf_resp"] = b2i(bufReq), b2i(bufResp)
	main := ActorSpec{Name: "main"}
	dep := func(name, host, target string, svc *SvcOpts) {
		sc.Targets = append(sc.Targets, TargetSpec{Addr: target})
		main.Ops = append(main.Ops, Op{Kind: "deploy", Service: name, Hosts: []string{host}, Targets: []string{target}, DeployTimeout: 3 * time.Second, DrainTimeout: 300 * time.Millisecond, Svc: svc, Tgt: tgt})
	}
	dep("web", "web.test", "web1:80", nil)
	dep("red", "secure.test", "red1:80", &SvcOpts{TLS: true, TLSRedirect: true, StaticCert: "good"})
	dep("pz", "paused.test", "pz1:80", nil)
	dep("st", "stopped.test", "st1:80", nil)
	dep("rc", "race.test", "rc1:80", nil)
	main.Ops = append(main.Ops, Op{Kind: "pause", Service: "pz", DrainTimeout: 200 * time.Millisecond, PauseTimeout: 150 * time.Millisecond})
	main.Ops = append(main.Ops, Op{Kind: "stop", Service: "st", DrainTimeout: 200 * time.Millisecond, Message: "closed"})
	sc.Actors = append(sc.Actors, main)
	nc := 1 + rng.Intn(3)
	raced := false
	var dials []string
	for c := 0; c < nc; c++ {
		a := ActorSpec{Name: fmt.Sprintf("client%d", c)}
		n := 2 + rng.Intn(5)
		for i := 0; i < n; i++ {
			kind := c19Kinds[rng.Intn(len(c19Kinds))]
			o := Op{Kind: "request", Host: "web.test", Path: fmt.Sprintf("/p%d/%d?k=%d&x=a;b", c, i, rng.Intn(100)), Tag: kind, Delay: time.Duration(20+rng.Intn(80)) * time.Millisecond,
				Headers: [][2]string{{"X-Custom", fmt.Sprintf("v%d", rng.Intn(1000))}, {"User-Agent", "sim-client/" + fmt.Sprint(rng.Intn(9))}}}
			if rng.Intn(2) == 0 { // the logged request header occurs twice
				o.Headers = append(o.Headers, [2]string{"X-Custom", fmt.Sprintf("w%d", rng.Intn(1000))})
			}
			if i == 0 {
				o.Delay += 500 * time.Millisecond // after the setup commands
			}
			size := 20 + rng.Intn(200)
			switch kind {
			case "served":
				o.Sim = fmt.Sprintf("size=%d;hdr=X-Extra:e%d", size, rng.Intn(50))
				if rng.Intn(2) == 0 { // the logged response header occurs twice
					o.Sim += fmt.Sprintf(";hdr=X-Extra:f%d", rng.Intn(50))
				}
			case "served-post":
				o.Method, o.Body = "POST", strings.Repeat("q", 1+rng.Intn(250))
				o.Headers = append(o.Headers, [2]string{"Content-Type", "text/x-sim"})
				o.Sim = fmt.Sprintf("size=%d", size)
			case "notfound":
				o.Host = "nobody.test"
			case "paused-out":
				o.Host = "paused.test"
			case "stopped":
				o.Host = "stopped.test"
			case "redirect":
				o.Host = "secure.test:8080"
			case "too-large-request":
				o.Method, o.Body = "POST", strings.Repeat("z", 301+rng.Intn(300))
			case "too-large-response":
				o.Sim = fmt.Sprintf("size=%d", 401+rng.Intn(400))
			case "fault-close-before":
				o.Sim = "fault=close_before"
			case "fault-garbage":
				o.Sim = "fault=garbage"
			case "fault-timeout":
				o.Sim = "mode=hang"
			case "fault-cut-body":
				o.Sim = fmt.Sprintf("size=%d;fault=close_mid_body", size)
			case "abort-before-headers":
				o.Sim = "delay=500ms;size=30"
				o.AbortAfter = time.Duration(50+rng.Intn(200)) * time.Millisecond
			case "abort-mid-stream":
				o.Sim = "mode=stream;chunks=4;gap=100ms;size=200"
				o.AbortAfter = time.Duration(120+rng.Intn(150)) * time.Millisecond
			case "upgrade":
				o.Upgrade = true
				o.AbortAfter = time.Duration(100+rng.Intn(300)) * time.Millisecond
			case "sse":
				o.Sim = "mode=sse;chunks=3;gap=30ms;size=90"
			case "abort-after-headers":
				// the target's header block has reached the client, the body has not begun
				o.Sim = "mode=" + pick(rng, "stream", "sse") + ";chunks=2;gap=20ms;size=60;pregap=700ms"
				o.AbortAfter = time.Duration(150+rng.Intn(300)) * time.Millisecond
			case "raced-by-stop":
				// a stop or pause of the service lands while the request is between
				// the gate and its claim (or between the claim and the second look at
				// the gate): it is answered by the proxy and no target ever sees it
				o.Host = "race.test"
				if !raced {
					raced = true
					at := pick(rng, "service.afterGate", "lb.claim", "service.claimed")
					o.Hold = &Hold{At: at, For: "service.beforeDrain", N: 1, Max: 2 * time.Second}
					racer := ActorSpec{Name: "racer", Ops: []Op{{Kind: pick(rng, "stop", "pause"), Service: "rc", DrainTimeout: 200 * time.Millisecond, PauseTimeout: 150 * time.Millisecond, Message: "raced",
						After: "hold:" + at, AfterN: 1, Delay: 5 * time.Second}}}
					sc.Actors = append(sc.Actors, racer)
				}
			}
			a.Ops = append(a.Ops, o)
		}
		sc.Actors = append(sc.Actors, a)
	}
	_ = dials
	return sc
}

func b2i(b bool) int {
	if b {
		return 1
	}
	return 0
}

func logStr(m map[string]any, k string) string {
	switch v := m[k].(type) {
	case string:
		return v
	case nil:
		return ""
	default:
		return fmt.Sprint(v)
	}
}

func logInt(m map[string]any, k string) int64 {
	switch v := m[k].(type) {
	case int64:
		return v
	case int:
		return int64(v)
	case float64:
		return int64(v)
	}
	return -1
}

func headerValue(hs [][2]string, name string) string {
	var vs []string
	for _, h := range hs {
		if strings.EqualFold(h[0], name) {
			vs = append(vs, h[1])
		}
	}
	return strings.Join(vs, ",")
}

func checkC19(r *RunResult) []Violation {
	var out []Violation
	w := r.W
	add := func(clause, sig, msg string) {
		out = append(out, Violation{Prop: "C19", Clause: clause, Sig: sig, Msg: msg})
	}
	byID := map[string][]map[string]any{}
	for _, rec := range w.Logs {
		id := logStr(rec, "request_id")
		byID[id] = append(byID[id], rec)
	}
	var logReq, logResp []string
	for _, c := range w.Cmds {
		if c.Op.Kind == "deploy" && c.Op.Service == "web" && c.Op.Tgt != nil {
			logReq, logResp = c.Op.Tgt.LogReqHeaders, c.Op.Tgt.LogRespHeaders
		}
	}
	endings := map[string]bool{}
	for _, q := range w.Responses {
		if q.Ret == 0 || strings.HasPrefix(q.Err, "dial") || q.Actor == "main" {
			continue
		}
		kind := q.Op.Tag
		recs := byID[q.ReqID]
		if len(recs) != 1 {
			add("not-exactly-one-record", kind, fmt.Sprintf("request %s (%s) produced %d access-log records", q.ReqID, kind, len(recs)))
			continue
		}
		rec := recs[0]
		r.Probes["records_matched"]++
		endings[kind] = true
		method := q.Op.Method
		if method == "" {
			method = "GET"
		}
		path, query, _ := strings.Cut(q.Op.Path, "?")
		host := q.Op.Host
		chk := func(field, got, want string) {
			if got != want {
				add("record-field-mismatch", field, fmt.Sprintf("request %s (%s): log record has %s=%q, the request had %q", q.ReqID, kind, field, got, want))
			}
		}
		chk("method", logStr(rec, "method"), method)
		chk("host", logStr(rec, "host"), host)
		chk("path", logStr(rec, "path"), path)
		chk("query", logStr(rec, "query"), query)
		chk("scheme", logStr(rec, "scheme"), "http")
		chk("user_agent", logStr(rec, "user_agent"), headerValue(q.Op.Headers, "User-Agent"))
		chk("req_content_type", logStr(rec, "req_content_type"), headerValue(q.Op.Headers, "Content-Type"))
		wantSvc := map[string]string{"web.test": "web", "paused.test": "pz", "stopped.test": "st", "secure.test:8080": "red", "nobody.test": "", "race.test": "rc"}[host]
		chk("service", logStr(rec, "service"), wantSvc)
		status := int(logInt(rec, "status"))
		written := logInt(rec, "resp_content_length")
		send := firstSend(r, q.ReqID)
		// target
		switch {
		case q.ServedBy != "":
			chk("target", logStr(rec, "target"), q.ServedBy)
		case send != nil:
			chk("target", logStr(rec, "target"), send.Target)
		case kind == "notfound" || kind == "paused-out" || kind == "stopped" || kind == "redirect" || kind == "raced-by-stop":
			// (raced-by-stop: only reached when no request byte was written to any target)
			chk("target", logStr(rec, "target"), "")
		}
		// status
		aborted := q.Op.AbortAfter > 0 && !q.Op.Upgrade
		switch {
		case q.Hijacked || kind == "upgrade":
			if q.Status == 101 && status != 101 {
				add("status-mismatch", kind, fmt.Sprintf("request %s: upgraded connection logged with status %d, not 101", q.ReqID, status))
			}
		case aborted && q.Status == 0:
			if status != 499 {
				add("status-mismatch", kind, fmt.Sprintf("request %s: the client went away before any response; logged status %d, not 499", q.ReqID, status))
			}
		case q.Status != 0:
			if status != q.Status {
				add("status-mismatch", kind, fmt.Sprintf("request %s (%s): the client received status %d, the record says %d", q.ReqID, kind, q.Status, status))
			}
		}
		// byte count
		if q.Clean && !q.Hijacked && q.Status != 0 {
			if written != int64(len(q.Body)) {
				add("byte-count-mismatch", kind, fmt.Sprintf("request %s (%s): the client received a complete body of %d bytes, the record says resp_content_length=%d", q.ReqID, kind, len(q.Body), written))
			}
		} else if !q.Hijacked && written < int64(len(q.Body)) {
			add("byte-count-mismatch", kind, fmt.Sprintf("request %s (%s): the client received %d body bytes but the record says only %d were written", q.ReqID, kind, len(q.Body), written))
		}
		if int(logInt(rec, "req_content_length")) != len(q.Op.Body) {
			add("record-field-mismatch", "req_content_length", fmt.Sprintf("request %s: req_content_length=%d, body had %d bytes", q.ReqID, logInt(rec, "req_content_length"), len(q.Op.Body)))
		}
		// configured headers: only for requests that reached a target of web
		if wantSvc == "web" && logStr(rec, "target") != "" {
			for _, h := range logReq {
				key := "req_" + strings.ReplaceAll(strings.ToLower(h), "-", "_")
				got, ok := rec[key]
				if !ok {
					add("configured-header-not-logged", key, fmt.Sprintf("request %s: request header %s is configured for logging but the record has no %s", q.ReqID, h, key))
					continue
				}
				if fmt.Sprint(got) != headerValue(q.Op.Headers, h) {
					add("logged-header-mismatch", key, fmt.Sprintf("request %s: %s=%q, sent %q", q.ReqID, key, got, headerValue(q.Op.Headers, h)))
				}
			}
			if q.Clean && q.Header != nil {
				for _, h := range logResp {
					key := "resp_" + strings.ReplaceAll(strings.ToLower(h), "-", "_")
					got, ok := rec[key]
					if !ok {
						add("configured-header-not-logged", key, fmt.Sprintf("request %s: response header %s is configured for logging but the record has no %s", q.ReqID, h, key))
						continue
					}
					if want := strings.Join(q.Header.Values(h), ","); fmt.Sprint(got) != want {
						add("logged-header-mismatch", key, fmt.Sprintf("request %s: %s=%q, the client received %q", q.ReqID, key, got, want))
					}
				}
			}
		}
	}
	r.Probes["endings"] = len(endings)
	for k := range endings {
		r.Probes["ending:"+k]++
	}
	// no record without a request
	for id, recs := range byID {
		if id != "" && w.ResponseByID(id) == nil && !strings.HasPrefix(id, "obs-") {
			add("record-without-request", "", fmt.Sprintf("%d access-log record(s) carry request id %q which no client sent", len(recs), id))
		}
	}
	return out
}
