package sim

import (
	"fmt"
	"math"
	"math/rand"
	"strings"
	"time"
)

// C10 — rollout split is sticky, monotone and confined to opted-in requests.
// The hash->side function has no schedule in it: those clauses are metamorphic
// relations over generated cookie values riding on simulated histories
// (rollout deploy / set / stop / redeploy / restart), and are reported as
// sampling.

func init() {
	Register(&Prop{
		ID:    "C10",
		Gen:   genC10,
		Check: checkC10,
		Nontrivial: func(r *RunResult) bool {
			return r.Probes["split_requests"] > 20 && r.Probes["history_has_stop"] > 0
		},
	})
}

func cookieValues(rng *rand.Rand, n int) []string {
	seen := map[string]bool{}
	var out []string
	alphabets := []string{"0123456789", "abcdefghijklmnopqrstuvwxyz", "ABCDEF0123456789-", "abc_-.~!#$%&*+^`|"}
	for len(out) < n {
		a := []rune(alphabets[rng.Intn(len(alphabets))])
		l := 1 + rng.Intn(16)
		var b strings.Builder
		for i := 0; i < l; i++ {
			b.WriteRune(a[rng.Intn(len(a))])
		}
		v := b.String()
		if !seen[v] {
			seen[v] = true
			out = append(out, v)
		}
	}
	return out
}

func genC10(seed int64, tier string) *Scenario {
	rng := rand.New(rand.NewSource(seed))
	sc := &Scenario{Prop: "C10", Seed: seed}
	sc.Sched = genSched(rng, tier, false)
	sc.Sched.MaxSteps = 200000
	sc.HC = HCKnobs{Interval: 5 * time.Second, Timeout: time.Second, TargetTimeout: 2 * time.Second}
	op := ActorSpec{Name: "op"}
	tn := 0
	router := ""
	targets := func(prefix string, n int) []string {
		var out []string
		for j := 0; j < n; j++ {
			tn++
			addr := fmt.Sprintf("%s%d:80", prefix, tn)
			sc.Targets = append(sc.Targets, TargetSpec{Addr: addr})
			out = append(out, addr)
		}
		return out
	}
	cmd := func(o Op) {
		o.Router = router
		op.Ops = append(op.Ops, o)
	}
	req := func(cookieHeader, tag string) {
		op.Ops = append(op.Ops, Op{Kind: "request", Router: router, Path: "/x", Cookie: cookieHeader, Tag: tag})
	}
	nvals := 24
	if tier == "thorough" {
		nvals = 120
	}
	vals := cookieValues(rng, nvals)
	allow := []string{}
	if rng.Intn(2) == 0 {
		allow = append(allow, vals[rng.Intn(len(vals))], vals[rng.Intn(len(vals))])
	}
	cmd(Op{Kind: "deploy", Service: "web", Targets: targets("a", 1+rng.Intn(2)), DeployTimeout: 2 * time.Second, DrainTimeout: 200 * time.Millisecond})
	// split before rollout targets exist: must be rejected
	cmd(Op{Kind: "rollout_set", Service: "web", Percent: 50, Allow: allow, Tag: "early-set"})
	req("", "no-split")
	req("kamal-rollout="+vals[0], "no-split")
	cmd(Op{Kind: "rollout_deploy", Service: "web", Targets: targets("r", 1+rng.Intn(2)), DeployTimeout: 2 * time.Second, DrainTimeout: 200 * time.Millisecond})
	req("kamal-rollout="+vals[1], "no-split")
	// percentages walked upward over the same cookie set
	var pcts []int
	if tier == "thorough" {
		for p := 0; p <= 100; p += 1 + rng.Intn(3) {
			pcts = append(pcts, p)
		}
	} else {
		pcts = []int{0, 1 + rng.Intn(30), 31 + rng.Intn(30), 61 + rng.Intn(38), 100}
		if rng.Intn(2) == 0 {
			pcts = pcts[1:]
		}
	}
	restartAt := -1
	if rng.Intn(2) == 0 {
		restartAt = rng.Intn(len(pcts))
	}
	redeployAt := rng.Intn(len(pcts))
	for i, p := range pcts {
		cmd(Op{Kind: "rollout_set", Service: "web", Percent: p, Allow: allow})
		for _, v := range vals {
			req("kamal-rollout="+v, fmt.Sprintf("split:%d:%s", p, v))
		}
		// same values again, surrounded by other cookies; and without the cookie
		for j := 0; j < 4; j++ {
			v := vals[rng.Intn(len(vals))]
			req("a=1; kamal-rollout="+v+"; zz=2", fmt.Sprintf("split:%d:%s", p, v))
		}
		req("", fmt.Sprintf("nocookie:%d", p))
		req("other=1; kamal-rolloutx=1", fmt.Sprintf("nocookie:%d", p))
		if i == redeployAt {
			if rng.Intn(2) == 0 {
				cmd(Op{Kind: "deploy", Service: "web", Targets: targets("a", 1), DeployTimeout: 2 * time.Second, DrainTimeout: 200 * time.Millisecond})
			} else {
				cmd(Op{Kind: "rollout_deploy", Service: "web", Targets: targets("r", 1), DeployTimeout: 2 * time.Second, DrainTimeout: 200 * time.Millisecond})
			}
			for _, v := range vals[:8] {
				req("kamal-rollout="+v, fmt.Sprintf("split:%d:%s", p, v))
			}
		}
		if i == restartAt {
			op.Ops = append(op.Ops, Op{Kind: "restore", Router: "B", From: router, Tag: "restart"})
			router = "B"
			for _, v := range vals[:8] {
				req("kamal-rollout="+v, fmt.Sprintf("split:%d:%s", p, v))
			}
		}
	}
	cmd(Op{Kind: "rollout_stop", Service: "web"})
	for _, v := range vals[:10] {
		req("kamal-rollout="+v, "stopped")
	}
	req("", "stopped")
	// a second service without rollout targets, restarted: the split must still be rejected
	cmd(Op{Kind: "deploy", Service: "plain", Hosts: []string{"plain.test"}, Targets: targets("p", 1), DeployTimeout: 2 * time.Second, DrainTimeout: 200 * time.Millisecond})
	op.Ops = append(op.Ops, Op{Kind: "restore", Router: "C", From: router, Tag: "restart2"})
	op.Ops = append(op.Ops, Op{Kind: "rollout_set", Router: "C", Service: "plain", Percent: 100, Tag: "early-set"})
	op.Ops = append(op.Ops, Op{Kind: "request", Router: "C", Host: "plain.test", Path: "/x", Cookie: "kamal-rollout=" + vals[0], Tag: "plain"})
	sc.Actors = append(sc.Actors, op)
	return sc
}

func checkC10(r *RunResult) []Violation {
	var out []Violation
	w := r.W
	add := func(clause, msg string) { out = append(out, Violation{Prop: "C10", Clause: clause, Msg: msg}) }
	for _, c := range w.Cmds {
		if c.Op.Tag == "early-set" && c.Ret != 0 {
			if c.Err == nil {
				add("split-accepted-without-rollout-targets", fmt.Sprintf("rollout set for %s (router %q) was accepted although the service has no rollout targets", c.Op.Service, c.Op.Router))
			} else {
				r.Probes["early_set_rejected"]++
			}
		}
		if c.Op.Kind == "rollout_stop" && c.Err == nil {
			r.Probes["history_has_stop"]++
		}
	}
	// walk commands and requests in order (single sequential actor)
	type item struct {
		seq int
		c   *CmdResult
		q   *Response
	}
	var items []item
	for _, c := range w.Cmds {
		items = append(items, item{seq: c.Call, c: c})
	}
	for _, q := range w.Responses {
		items = append(items, item{seq: q.Call, q: q})
	}
	for i := 1; i < len(items); i++ { // insertion sort by seq
		for j := i; j > 0 && items[j].seq < items[j-1].seq; j-- {
			items[j], items[j-1] = items[j-1], items[j]
		}
	}
	active, rollout := map[string]bool{}, map[string]bool{}
	var allowlist map[string]bool
	side := map[string]map[int]string{} // value -> pct -> side
	for _, it := range items {
		if it.c != nil {
			c := it.c
			if c.Err != nil || c.Ret == 0 || c.Op.Service != "web" {
				continue
			}
			switch c.Op.Kind {
			case "deploy":
				active = setOf(c.Op.Targets)
			case "rollout_deploy":
				rollout = setOf(c.Op.Targets)
			case "rollout_set":
				allowlist = setOf(c.Op.Allow)
			}
			continue
		}
		q := it.q
		if q.Ret == 0 || q.Op.Tag == "plain" {
			if q.Op.Tag == "plain" && q.Status != 200 {
				add("request-failed-after-restart", fmt.Sprintf("request with the rollout cookie to a restored service without rollout targets got status %d", q.Status))
			}
			continue
		}
		if q.Status != 200 {
			add("request-failed", fmt.Sprintf("request %s (%s) got status %d", q.ReqID, q.Op.Tag, q.Status))
			continue
		}
		s := ""
		switch {
		case active[q.ServedBy]:
			s = "active"
		case rollout[q.ServedBy]:
			s = "rollout"
		default:
			add("served-by-unknown-target", fmt.Sprintf("request %s served by %q which is neither a current active nor rollout target", q.ReqID, q.ServedBy))
			continue
		}
		tag := q.Op.Tag
		switch {
		case tag == "no-split" || tag == "stopped" || strings.HasPrefix(tag, "nocookie:"):
			if s != "active" {
				add("rollout-without-opt-in", fmt.Sprintf("request %s (%s, cookie %q) went to the rollout targets", q.ReqID, tag, q.Op.Cookie))
			}
		case strings.HasPrefix(tag, "split:"):
			parts := strings.SplitN(tag, ":", 3)
			var p int
			fmt.Sscanf(parts[1], "%d", &p)
			v := parts[2]
			r.Probes["split_requests"]++
			if allowlist[v] && s != "rollout" {
				add("allowlisted-value-not-in-rollout", fmt.Sprintf("cookie value %q is on the allowlist but request %s went to the active targets at %d%%", v, q.ReqID, p))
			}
			if p == 100 && s != "rollout" {
				add("not-everyone-at-100-percent", fmt.Sprintf("cookie value %q went to the active targets at 100%%", v))
			}
			if side[v] == nil {
				side[v] = map[int]string{}
			}
			if prev, ok := side[v][p]; ok && prev != s {
				add("not-sticky", fmt.Sprintf("cookie value %q at %d%% went to %s and later (request %s) to %s with the split unchanged", v, p, prev, q.ReqID, s))
			}
			side[v][p] = s
		}
	}
	// monotone in the percentage
	for v, m := range side {
		lowestRollout := 1000
		for p, s := range m {
			if s == "rollout" && p < lowestRollout {
				lowestRollout = p
			}
		}
		for p, s := range m {
			if p > lowestRollout && s != "rollout" {
				add("not-monotone", fmt.Sprintf("cookie value %q is in the rollout at %d%% but not at %d%%", v, lowestRollout, p))
			}
		}
	}
	// share of random values per percentage (non-allowlisted values only)
	cnt, tot := map[int]int{}, map[int]int{}
	for v, m := range side {
		if allowlist[v] {
			continue
		}
		for p, s := range m {
			tot[p]++
			if s == "rollout" {
				cnt[p]++
			}
		}
	}
	for p, n := range tot {
		if n < 20 {
			continue
		}
		mean := float64(n) * float64(p) / 100
		sd := math.Sqrt(float64(n) * float64(p) / 100 * (1 - float64(p)/100))
		if math.Abs(float64(cnt[p])-mean) > 6.2*sd+1.5 { // false-alarm probability < 1e-9
			add("share-does-not-match-percentage", fmt.Sprintf("at %d%% %d of %d random cookie values went to the rollout targets (expected about %.1f)", p, cnt[p], n, mean))
		}
		r.Probes["share_checks"]++
	}
	return out
}
