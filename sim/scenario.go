package sim

import (
	"time"
)

// ---------------------------------------------------------------------------
// Scenario: everything that defines a run except the schedule. It is generated
// from a seed (per property) or loaded from a replay file, and it is what the
// minimiser shrinks.
// ---------------------------------------------------------------------------

type Scenario struct {
	Prop    string            `json:"prop"`
	Seed    int64             `json:"seed"`
	Sched   SchedKnobs        `json:"sched"`
	HC      HCKnobs           `json:"hc"`
	Targets []TargetSpec      `json:"targets"`
	Actors  []ActorSpec       `json:"actors"`
	Server  bool              `json:"server_mode,omitempty"` // run a real http.Server in front of the handler
	Pages   map[string]string `json:"pages,omitempty"`       // custom error page dir content (name -> template), used by services with ErrorPages
	Params  map[string]int    `json:"params,omitempty"`      // property specific integers
	Note    string            `json:"note,omitempty"`
	// TaskHolds deschedule goroutines of the proxy itself (by task name prefix,
	// e.g. "hc:new0:80"): fault "this goroutine does not run for a while".
	TaskHolds []TaskHold `json:"task_holds,omitempty"`
}

// TaskHold: the first task whose name has the prefix and that parks at Hold.At
// is held until Hold.For has been released Hold.N times (or Hold.Max passed).
type TaskHold struct {
	Task string `json:"task"`
	Hold Hold   `json:"hold"`
}

type HCKnobs struct {
	Interval time.Duration `json:"interval"`
	Timeout  time.Duration `json:"timeout"`
	Path     string        `json:"path,omitempty"`
	// TargetTimeout is the services' default response-header timeout (0 = 30s).
	TargetTimeout time.Duration `json:"target_timeout,omitempty"`
}

type ActorSpec struct {
	Name string `json:"name"`
	Ops  []Op   `json:"ops"`
}

// Op is one operation of an actor. Kind selects which fields matter.
type Op struct {
	Kind   string        `json:"kind"` // deploy rollout_deploy rollout_set rollout_stop pause stop resume remove list request sleep restore wait
	Delay  time.Duration `json:"delay,omitempty"`
	Router string        `json:"router,omitempty"` // "" = "A"
	After  string        `json:"after,omitempty"`  // start when this yield point has been released AfterN times (Delay = max wait)
	AfterN int           `json:"after_n,omitempty"`
	Strict bool          `json:"strict,omitempty"` // with After: skip the operation if the point was not reached within Delay

	// commands
	Service       string        `json:"service,omitempty"`
	Targets       []string      `json:"targets,omitempty"`
	Hosts         []string      `json:"hosts,omitempty"`
	Paths         []string      `json:"paths,omitempty"`
	DeployTimeout time.Duration `json:"deploy_timeout,omitempty"`
	DrainTimeout  time.Duration `json:"drain_timeout,omitempty"`
	PauseTimeout  time.Duration `json:"pause_timeout,omitempty"`
	Message       string        `json:"message,omitempty"`
	Percent       int           `json:"percent,omitempty"`
	Allow         []string      `json:"allow,omitempty"`
	Svc           *SvcOpts      `json:"svc,omitempty"`
	Tgt           *TgtOpts      `json:"tgt,omitempty"`
	From          string        `json:"from,omitempty"` // restore: router whose state file is copied

	// requests
	Method     string        `json:"method,omitempty"`
	Host       string        `json:"host,omitempty"`
	Path       string        `json:"path,omitempty"` // path + optional ?query, used as request URI
	Cookie     string        `json:"cookie,omitempty"`
	Headers    [][2]string   `json:"headers,omitempty"`
	Body       string        `json:"body,omitempty"`
	Sim        string        `json:"sim,omitempty"` // X-Sim directive for the fake target
	TLS        bool          `json:"tls,omitempty"`
	Upgrade    bool          `json:"upgrade,omitempty"`
	AbortAfter time.Duration `json:"abort_after,omitempty"`
	Raw        string        `json:"raw,omitempty"`   // server mode: raw request bytes
	Parts      []string      `json:"parts,omitempty"` // server mode: further pieces written after Raw, PartGap apart
	PartGap    time.Duration `json:"part_gap,omitempty"`
	Frag       int           `json:"frag,omitempty"` // server mode: client->proxy bytes delivered in fragments of this size
	FragGap    time.Duration `json:"frag_gap,omitempty"`
	NoReqID    bool          `json:"no_req_id,omitempty"` // server mode: do not send X-Request-Id
	Tag        string        `json:"tag,omitempty"`       // free label for oracles
	Hold       *Hold         `json:"hold,omitempty"`      // directed stall of this operation's goroutine
}

type SvcOpts struct {
	TLS         bool   `json:"tls,omitempty"`
	TLSRedirect bool   `json:"tls_redirect,omitempty"`
	StaticCert  string `json:"static_cert,omitempty"` // "good" | "bad"
	ACME        bool   `json:"acme,omitempty"`
	ErrorPages  string `json:"error_pages,omitempty"` // "" | "good" | "bad" | "missing"
	StripPrefix bool   `json:"strip_prefix,omitempty"`
}

type TgtOpts struct {
	ResponseTimeout time.Duration `json:"response_timeout,omitempty"`
	BufferRequests  bool          `json:"buffer_requests,omitempty"`
	BufferResponses bool          `json:"buffer_responses,omitempty"`
	MaxMem          int64         `json:"max_mem,omitempty"`
	MaxReq          int64         `json:"max_req,omitempty"`
	MaxResp         int64         `json:"max_resp,omitempty"`
	ForwardHeaders  bool          `json:"forward_headers,omitempty"`
	LogReqHeaders   []string      `json:"log_req_headers,omitempty"`
	LogRespHeaders  []string      `json:"log_resp_headers,omitempty"`
	HCInterval      time.Duration `json:"hc_interval,omitempty"`
	HCTimeout       time.Duration `json:"hc_timeout,omitempty"`
	HCPath          string        `json:"hc_path,omitempty"`
}

// us returns k milliseconds plus a distinct odd microsecond offset, so harness
// events never coincide with repo timers (which sit on whole milliseconds).
func oddMs(ms int, salt int) time.Duration {
	return time.Duration(ms)*time.Millisecond + time.Duration(2*(salt%400)+1)*time.Microsecond
}
