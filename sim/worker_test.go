package sim

import (
	"encoding/json"
	"fmt"
	"os"
	"path/filepath"
	"runtime"
	"runtime/debug"
	"strconv"
	"strings"
	"testing"
	"time"
)

func envInt(name string, def int64) int64 {
	if v := os.Getenv(name); v != "" {
		if n, err := strconv.ParseInt(v, 10, 64); err == nil {
			return n
		}
	}
	return def
}

// ---- known findings ---------------------------------------------------------

type KnownFinding struct {
	ID       string `json:"id"`
	Property string `json:"property"`
	Clause   string `json:"clause"`
	Sig      string `json:"sig"`
	What     string `json:"what"`
}

type KnownFile struct {
	Findings []KnownFinding `json:"findings"`
	Fixed    []string       `json:"fixed"`
}

func loadKnown() []KnownFinding {
	p := os.Getenv("VERIF_KNOWN")
	if p == "" {
		return nil
	}
	b, err := os.ReadFile(p)
	if err != nil {
		return nil
	}
	var kf KnownFile
	if json.Unmarshal(b, &kf) != nil {
		return nil
	}
	return kf.Findings
}

func matchKnown(known []KnownFinding, v *Violation) {
	for _, k := range known {
		if k.Property == v.Prop && k.Clause == v.Clause && k.Sig == v.Sig && k.Sig != "" {
			v.Known = k.ID
			return
		}
	}
}

// ---- replay files -----------------------------------------------------------

type ReplayFile struct {
	Property string     `json:"property"`
	Clause   string     `json:"clause"`
	Sig      string     `json:"sig,omitempty"`
	Msg      string     `json:"violation"`
	Seed     int64      `json:"seed"`
	Tier     string     `json:"tier"`
	Auto     bool       `json:"auto,omitempty"`  // found by (and replayable only with) the build that yields at every lock acquisition
	Crash    bool       `json:"crash,omitempty"` // a repo goroutine panicked: replay = regenerate from seed in a subprocess
	Scenario *Scenario  `json:"scenario,omitempty"`
	Schedule []Decision `json:"schedule"`
	Default  string     `json:"schedule_default"`
	OrigOps  int        `json:"original_ops"`
	OrigDec  int        `json:"original_decisions"`
	MinRuns  int        `json:"minimisation_runs"`
	Tree     string     `json:"tree,omitempty"`
}

func countOps(sc *Scenario) int {
	n := 0
	for _, a := range sc.Actors {
		n += len(a.Ops)
	}
	return n
}

// ---- worker -----------------------------------------------------------------

type runLine struct {
	I         int            `json:"i"`
	Seed      int64          `json:"seed"`
	Start     bool           `json:"start,omitempty"`
	Hash      string         `json:"hash,omitempty"`
	Sched     string         `json:"sched,omitempty"`
	Steps     int            `json:"steps,omitempty"`
	VirtualMs int64          `json:"virtual_ms,omitempty"`
	Nontriv   bool           `json:"nontrivial,omitempty"`
	Budget    string         `json:"budget,omitempty"`
	Leak      string         `json:"leak,omitempty"`
	Probes    map[string]int `json:"probes,omitempty"`
	Viol      []Violation    `json:"viol,omitempty"`
	Replay    string         `json:"replay,omitempty"`
	Ops       int            `json:"ops,omitempty"`
}

type summaryLine struct {
	Summary     bool           `json:"summary"`
	Runs        int            `json:"runs"`
	VirtualMs   int64          `json:"virtual_ms"`
	Steps       int64          `json:"steps"`
	Probes      map[string]int `json:"probes"`
	Switches    map[string]int `json:"switches"`
	NontrivHash []string       `json:"nontrivial_hashes"`
	AllHash     int            `json:"distinct_sched"`
	Samples     []any          `json:"samples"`
	WallS       float64        `json:"wall_s"`
}

func TestWorker(t *testing.T) {
	prop := os.Getenv("VERIF_PROP")
	out := os.Getenv("VERIF_OUT")
	if prop == "" || out == "" {
		t.Skip()
	}
	p := Props[prop]
	if p == nil {
		t.Fatalf("unknown property %s", prop)
	}
	if os.Getenv("VERIF_FREE") == "" {
		runtime.GOMAXPROCS(1)
	}
	debug.SetGCPercent(-1)
	tier := os.Getenv("VERIF_TIER")
	if tier == "" {
		tier = "quick"
	}
	base := envInt("VERIF_SEED", 1)
	k := int(envInt("VERIF_WORKER", 0))
	n := int(envInt("VERIF_NWORKERS", 1))
	maxRuns := int(envInt("VERIF_MAXRUNS", 100))
	from := int(envInt("VERIF_FROM", 0))
	deadline := time.Unix(envInt("VERIF_DEADLINE", time.Now().Add(time.Hour).Unix()), 0)
	replayDir := os.Getenv("VERIF_REPLAY_DIR")
	known := loadKnown()
	f, err := os.OpenFile(out, os.O_APPEND|os.O_CREATE|os.O_WRONLY, 0o644)
	if err != nil {
		t.Fatal(err)
	}
	defer f.Close()
	emit := func(v any) {
		b, _ := json.Marshal(v)
		f.Write(append(b, '\n'))
	}
	Heartbeat = func() { f.Write([]byte("{\"hb\":1}\n")) }
	sum := summaryLine{Summary: true, Probes: map[string]int{}, Switches: map[string]int{}}
	allHash := map[string]bool{}
	ntHash := map[string]bool{}
	minimised := 0
	t0 := time.Now()
	for i := from + k; i < maxRuns; i += n {
		if time.Now().After(deadline) {
			break
		}
		seed := DeriveSeed(base, prop, i)
		emit(runLine{I: i, Seed: seed, Start: true})
		sc := p.Gen(seed, tier)
		r := Execute(t, sc, nil)
		line := runLine{I: i, Seed: seed, Hash: r.Hash, Sched: SchedHash(r.Trace), Steps: r.Steps, VirtualMs: r.Virtual.Milliseconds(), Budget: r.Budget, Leak: trunc(r.Leak, 2000), Probes: r.Probes, Ops: countOps(sc)}
		if p.Nontrivial != nil && r.H != nil {
			line.Nontriv = p.Nontrivial(r)
		}
		sum.Runs++
		sum.VirtualMs += line.VirtualMs
		sum.Steps += int64(r.Steps)
		allHash[line.Sched] = true
		if line.Nontriv {
			ntHash[line.Sched] = true
		}
		for kk, vv := range r.Probes {
			sum.Probes[kk] += vv
			if vv > 0 {
				sum.Probes["runs_with:"+kk]++
			}
		}
		if r.Stalls > 0 {
			sum.Probes["fault:cpu_stall"] += r.Stalls
			sum.Probes["runs_with:fault:cpu_stall"]++
		}
		if r.H != nil {
			inRun := map[string]bool{}
			for _, e := range r.H.Events {
				kind := ""
				switch {
				case e.Kind == "fault":
					kind = e.Info
					if j := strings.Index(kind, ":"); j > 0 {
						kind = kind[:j]
					}
				case e.Kind == "tgt.probe" && e.Info != "ok":
					kind = "probe-" + e.Info
				case e.Kind == "req.abort" || e.Kind == "req.upabort":
					kind = "client-abort"
				case e.Kind == "net.refused":
					kind = "connection-refused"
				}
				if kind != "" {
					sum.Probes["fault:"+kind]++
					inRun[kind] = true
				}
			}
			for k := range inRun {
				sum.Probes["runs_with:fault:"+k]++
			}
			if len(r.W.Crashes) > 0 {
				sum.Probes["fault:crash-point-copy"] += len(r.W.Crashes)
				sum.Probes["runs_with:fault:crash-point-copy"]++
			}
		}
		SwitchPairs(r.Trace, sum.Switches)
		if len(sum.Samples) < 2 {
			sum.Samples = append(sum.Samples, sampleOf(sc, r))
		}
		for vi := range r.Viol {
			v := &r.Viol[vi]
			matchKnown(known, v)
		}
		line.Viol = r.Viol
		// first unlisted violation: confirm, minimise, write a replay file
		for _, v := range r.Viol {
			if v.Known != "" || replayDir == "" || minimised >= 2 {
				continue
			}
			minimised++
			line.Replay = writeReplay(t, replayDir, sc, r, v, tier)
			break
		}
		emit(line)
		runtime.GC()
	}
	sum.AllHash = len(allHash)
	for h := range ntHash {
		sum.NontrivHash = append(sum.NontrivHash, h)
	}
	sum.WallS = time.Since(t0).Seconds()
	emit(sum)
}

func sampleOf(sc *Scenario, r *RunResult) any {
	type actorS struct {
		Name string   `json:"name"`
		Ops  []string `json:"ops"`
	}
	var as []actorS
	for _, a := range sc.Actors {
		x := actorS{Name: a.Name}
		for _, o := range a.Ops {
			s := o.Kind
			if o.Service != "" {
				s += " " + o.Service
			}
			if len(o.Targets) > 0 {
				s += " " + strings.Join(o.Targets, ",")
			}
			if o.Kind == "request" {
				s += " " + o.Method + " " + o.Host + o.Path
				if o.Sim != "" {
					s += " [" + o.Sim + "]"
				}
			}
			if o.After != "" {
				s += fmt.Sprintf(" @%s#%d", o.After, o.AfterN)
			} else if o.Delay > 0 {
				s += " +" + o.Delay.String()
			}
			x.Ops = append(x.Ops, s)
		}
		as = append(as, x)
	}
	var sched []string
	for i, d := range r.Trace {
		if i >= 60 {
			sched = append(sched, fmt.Sprintf("... %d more", len(r.Trace)-i))
			break
		}
		sched = append(sched, d.Task+"@"+d.Point)
	}
	return map[string]any{"seed": sc.Seed, "policy": sc.Sched.Policy, "targets": len(sc.Targets), "actors": as, "schedule_prefix": sched, "events": r.H.Len(), "virtual": r.Virtual.String()}
}

func writeReplay(t *testing.T, dir string, sc *Scenario, r *RunResult, v Violation, tier string) string {
	// confirm: same seed again must give the identical history
	r2 := Execute(t, sc, nil)
	if r2.Hash != r.Hash {
		return "NONDETERMINISTIC:" + r.Hash + "!=" + r2.Hash
	}
	msc, mtrace, tried := Minimize(t, sc, r.Trace, v, 600, 40*time.Second)
	final := Execute(t, msc, mtrace)
	msg := v.Msg
	for _, fv := range final.Viol {
		if classOf(fv) == classOf(v) {
			msg = fv.Msg
			break
		}
	}
	rf := ReplayFile{Property: v.Prop, Clause: v.Clause, Sig: v.Sig, Msg: msg, Seed: sc.Seed, Tier: tier, Scenario: msc, Schedule: mtrace,
		Default: "after the listed decisions (or when a listed task is not parked): lowest-named parked task; time advances only when nothing is parked",
		OrigOps: countOps(sc), OrigDec: len(r.Trace), MinRuns: tried, Tree: os.Getenv("VERIF_TREE"), Auto: AutoYield}
	os.MkdirAll(dir, 0o755)
	path := filepath.Join(dir, fmt.Sprintf("%s-%d.json", v.Prop, sc.Seed))
	b, _ := json.MarshalIndent(rf, "", " ")
	os.WriteFile(path, b, 0o644)
	return path
}

// TestReplay re-executes a replay file: VERIF_REPLAY=<path>.
func TestReplay(t *testing.T) {
	path := os.Getenv("VERIF_REPLAY")
	if path == "" {
		t.Skip()
	}
	runtime.GOMAXPROCS(1)
	b, err := os.ReadFile(path)
	if err != nil {
		fmt.Println("REPLAY-ERROR", err)
		os.Exit(2)
	}
	var rf ReplayFile
	if err := json.Unmarshal(b, &rf); err != nil {
		fmt.Println("REPLAY-ERROR", err)
		os.Exit(2)
	}
	var r *RunResult
	if rf.Crash || rf.Scenario == nil {
		p := Props[rf.Property]
		sc := p.Gen(rf.Seed, rf.Tier)
		r = Execute(t, sc, nil) // a crash kills this process, which is the reproduction
	} else {
		sched := rf.Schedule
		if sched == nil {
			sched = []Decision{}
		}
		r = Execute(t, rf.Scenario, sched)
	}
	if os.Getenv("VERIF_DUMP") != "" {
		fmt.Print(r.H.Dump(0))
	}
	fmt.Printf("replay: events=%d steps=%d hash=%s diverged=%d\n", r.H.Len(), r.Steps, r.Hash, r.Diverge)
	want := vclass{rf.Property, rf.Clause, rf.Sig}
	found := false
	for _, v := range r.Viol {
		fmt.Printf("violation %s/%s [%s]: %s\n", v.Prop, v.Clause, v.Sig, v.Msg)
		if classOf(v) == want {
			found = true
		}
	}
	if found {
		fmt.Printf("REPRODUCED property=%s clause=%s\n", rf.Property, rf.Clause)
	} else {
		fmt.Printf("NOT-REPRODUCED property=%s clause=%s\n", rf.Property, rf.Clause)
	}
}

// TestAdhoc: VERIF_PROP, VERIF_SEED, VERIF_COUNT — prints one line per run.
func TestAdhoc(t *testing.T) {
	prop := os.Getenv("VERIF_PROP")
	if prop == "" || os.Getenv("VERIF_OUT") != "" {
		t.Skip()
	}
	if os.Getenv("VERIF_FREE") == "" {
		runtime.GOMAXPROCS(1)
	}
	p := Props[prop]
	base := envInt("VERIF_SEED", 1)
	n := int(envInt("VERIF_COUNT", 10))
	from := int(envInt("VERIF_FROM", 0))
	verbose := os.Getenv("VERIF_VERBOSE") != ""
	tier := os.Getenv("VERIF_TIER")
	if tier == "" {
		tier = "quick"
	}
	t0 := time.Now()
	nv := 0
	classes := map[string]int{}
	probes := map[string]int{}
	ntCount := 0
	defer func() {
		fmt.Printf("nontrivial=%d probes=%v\n", ntCount, probes)
	}()
	if one := envInt("VERIF_ONESEED", 0); one != 0 {
		from, n = 0, 1
	}
	for i := from; i < from+n; i++ {
		seed := DeriveSeed(base, prop, i)
		if one := envInt("VERIF_ONESEED", 0); one != 0 {
			seed = one
		}
		sc := p.Gen(seed, tier)
		r := Execute(t, sc, nil)
		nt := p.Nontrivial != nil && p.Nontrivial(r)
		if nt {
			ntCount++
		}
		for k, v := range r.Probes {
			probes[k] += v
		}
		if os.Getenv("VERIF_QUIET") == "" {
			fmt.Printf("i=%d seed=%d hash=%s steps=%d virt=%v budget=%q leak=%q viol=%d events=%d nt=%v probes=%v\n", i, seed, r.Hash, r.Steps, r.Virtual, r.Budget, trunc(r.Leak, 300), len(r.Viol), r.H.Len(), nt, r.Probes)
		}
		for _, v := range r.Viol {
			nv++
			classes[v.Clause+" ["+v.Sig+"]"]++
			if os.Getenv("VERIF_QUIET") == "" {
				fmt.Printf("   VIOL %s/%s: %s\n", v.Prop, v.Clause, v.Msg)
			}
		}
		if r.Leak != "" || r.Budget != "" {
			classes["leak/budget: "+trunc(r.Leak, 60)+r.Budget]++
		}
		if verbose || (len(r.Viol) > 0 && os.Getenv("VERIF_DUMP") != "") {
			b, _ := json.Marshal(sc)
			fmt.Println(string(b))
			fmt.Print(r.H.Dump(0))
		}
		runtime.GC()
	}
	fmt.Printf("runs=%d violations=%d wall=%v\n", n, nv, time.Since(t0))
	for _, k := range sortedKeys(classes) {
		fmt.Printf("  %5d  %s\n", classes[k], k)
	}
}

// TestHashes prints one "seed hash" line per run, for the determinism self-test.
func TestHashes(t *testing.T) {
	props := os.Getenv("VERIF_HASH_PROPS")
	if props == "" {
		t.Skip()
	}
	if os.Getenv("VERIF_FREE") == "" {
		runtime.GOMAXPROCS(1)
	}
	base := envInt("VERIF_SEED", 1)
	n := int(envInt("VERIF_COUNT", 20))
	for _, prop := range strings.Split(props, ",") {
		p := Props[prop]
		if p == nil {
			continue
		}
		for i := 0; i < n; i++ {
			seed := DeriveSeed(base, prop, i)
			sc := p.Gen(seed, "quick")
			r := Execute(t, sc, nil)
			fmt.Printf("H %s %d %s %d\n", prop, seed, r.Hash, len(r.Viol))
			runtime.GC()
		}
	}
}
