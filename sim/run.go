package sim

import (
	"crypto/sha256"
	"encoding/hex"
	"fmt"
	"os"
	"runtime"
	"runtime/debug"
	"sort"
	"strconv"
	"strings"
	"testing"
	"testing/synctest"
	"time"
)

// Violation is one oracle failure.
type Violation struct {
	Prop   string `json:"prop"`
	Clause string `json:"clause"`          // oracle clause, stable identifier (the violation class)
	Msg    string `json:"msg"`             // human readable, includes event numbers
	Sig    string `json:"sig,omitempty"`   // causal signature used to match known findings
	Known  string `json:"known,omitempty"` // id of the known finding it matches, if any
}

type RunResult struct {
	Sc       *Scenario
	W        *World
	H        *History
	Trace    []Decision
	Hash     string
	Budget   string
	Deadlock string // goroutines of the proxy waited for a mutex for ever (lock tracking of the autoyield build)
	Leak     string
	Steps    int
	Stalls   int
	Diverge  int
	Virtual  time.Duration
	Viol     []Violation
	Probes   map[string]int // rare-condition probes and fault counters
	ix       *stepIdx
}

// stepIdx returns the (memoised) index of the step events of the run's history.
func (r *RunResult) stepIdx() *stepIdx {
	if r.ix == nil {
		r.ix = stepIndex(r.H)
	}
	return r.ix
}

// Prop is the per-property plug-in.
type Prop struct {
	ID         string
	Gen        func(seed int64, tier string) *Scenario
	Post       func(w *World)                 // in-bubble, after the schedule ended, hooks off
	Check      func(r *RunResult) []Violation // history oracles
	Nontrivial func(r *RunResult) bool        // rule for distinct_nontrivial
	Rule       string                         // the rule in words
	Real       []string
	Stub       []string
	Assume     []string
}

var Props = map[string]*Prop{}

func Register(p *Prop) { Props[p.ID] = p }

// Execute runs one scenario under one schedule (replay == nil: drawn from the
// scenario's seed) and evaluates the property's oracles.
func Execute(t *testing.T, sc *Scenario, replay []Decision) *RunResult {
	p := Props[sc.Prop]
	res := &RunResult{Sc: sc, Probes: map[string]int{}}
	func() {
		defer func() {
			if r := recover(); r != nil {
				res.Leak = fmt.Sprint(r)
				if !strings.Contains(res.Leak, "deadlock") {
					res.Leak += "\n" + string(debug.Stack())
				} else {
					res.Leak += "\n" + blockedStacks()
				}
			}
		}()
		run := runBubble
		if realScale() > 0 { // real-time race mode: no bubble at all
			run = func(_ *testing.T, f func()) { f() }
		}
		run(t, func() {
			h := NewHistory()
			h.SetStart(time.Now())
			free := os.Getenv("VERIF_UNCONTROLLED") != ""
			h.Off = free
			s := NewSim(sc.Seed, sc.Sched, h)
			s.Free = free
			s.RealScale = realScale()
			if replay != nil {
				s.replay = replay
				if len(replay) == 0 {
					s.replay = []Decision{}
				}
			}
			w := NewWorld(sc, s, h)
			res.W, res.H = w, h
			w.StartActors()
			s.Run()
			res.Trace = s.trace
			res.Budget = s.Budget
			res.Deadlock = s.Deadlock
			res.Steps = s.steps
			res.Stalls = s.stalls
			res.Diverge = s.Diverge
			res.Virtual = s.Now()
			h.Freeze() // what follows (post-run oracle work, teardown) is not part of the run
			// (after a deadlock the parked tasks stay parked - see Sim.Stop; the rest
			// of the world is torn down as usual so that the bubble can end)
			if p != nil && p.Post != nil && res.Deadlock == "" {
				p.Post(w)
			}
			w.dead.Store(true)
			w.Teardown()
			// let every sleeping harness goroutine and every repo timer run out,
			// so that only genuinely stuck goroutines remain at the end
			if s.RealScale > 0 {
				time.Sleep(100 * time.Millisecond)
				return
			}
			for i := 0; i < 4; i++ {
				time.Sleep(time.Hour)
				synctest.Wait()
			}
		})
	}()
	if res.H != nil {
		res.Hash = res.H.Hash()
	}
	if res.W != nil {
		res.W.Cleanup()
	}
	if p != nil && p.Check != nil && res.H != nil {
		res.Viol = p.Check(res)
	}
	res.Viol = append(res.Viol, genericChecks(res)...)
	return res
}

// genericChecks apply to every property: no panic in a command or request.
func genericChecks(r *RunResult) []Violation {
	var out []Violation
	if r.W == nil {
		return out
	}
	for _, c := range r.W.Cmds {
		if c.Panic != "" {
			out = append(out, Violation{Prop: r.Sc.Prop, Clause: "panic-in-command", Msg: fmt.Sprintf("command %s(%s) by %s panicked: %s", c.Op.Kind, c.Op.Service, c.Actor, trunc(c.Panic, 400)), Sig: "panic:" + c.Op.Kind})
		}
	}
	for _, q := range r.W.Responses {
		if strings.HasPrefix(q.Err, "PANIC") {
			out = append(out, Violation{Prop: r.Sc.Prop, Clause: "panic-in-request", Msg: fmt.Sprintf("request %s panicked: %s", q.ReqID, trunc(q.Err, 400)), Sig: "panic:request"})
		}
	}
	return out
}

// SchedHash is the digest of the decision sequence projected on (task kind,
// point): the measure of "distinct interleavings".
func SchedHash(trace []Decision) string {
	d := sha256.New()
	for _, x := range trace {
		k := x.Task
		if i := strings.IndexAny(k, ":#"); i > 0 {
			k = k[:i]
		}
		fmt.Fprintf(d, "%s@%s;", strings.TrimRight(k, "0123456789"), x.Point)
	}
	return hex.EncodeToString(d.Sum(nil))[:16]
}

// SwitchPairs returns the distinct context-switch pairs (point A -> point B of
// a different task) in a trace.
func SwitchPairs(trace []Decision, into map[string]int) {
	for i := 1; i < len(trace); i++ {
		a, b := trace[i-1], trace[i]
		if a.Task != b.Task && a.Task != advanceName && b.Task != advanceName {
			into[a.Point+">"+b.Point]++
		}
	}
}

func sortedKeys[V any](m map[string]V) []string {
	ks := make([]string, 0, len(m))
	for k := range m {
		ks = append(ks, k)
	}
	sort.Strings(ks)
	return ks
}

// splitmix64 derives independent seeds.
func splitmix(x uint64) uint64 {
	x += 0x9e3779b97f4a7c15
	z := x
	z = (z ^ (z >> 30)) * 0xbf58476d1ce4e5b9
	z = (z ^ (z >> 27)) * 0x94d049bb133111eb
	return z ^ (z >> 31)
}

func DeriveSeed(base int64, prop string, i int) int64 {
	x := uint64(base)
	for _, c := range prop {
		x = splitmix(x ^ uint64(c))
	}
	x = splitmix(x ^ uint64(i)*0x100000001b3)
	return int64(x >> 1)
}

// blockedStacks returns the stacks of goroutines that belong to a synctest
// bubble and are still blocked.
func blockedStacks() string {
	buf := make([]byte, 1<<20)
	n := runtime.Stack(buf, true)
	var keep []string
	for _, g := range strings.Split(string(buf[:n]), "\n\n") {
		if strings.Contains(g, "synctest") && !strings.Contains(g, "blockedStacks") {
			lines := strings.Split(g, "\n")
			if len(lines) > 14 {
				lines = lines[:14]
			}
			keep = append(keep, strings.Join(lines, "\n"))
		}
		if len(keep) >= 6 {
			break
		}
	}
	return strings.Join(keep, "\n\n")
}

// realScale is the divisor for all durations in real-time race mode
// (VERIF_REALTIME=<n>), 0 when simulating inside a bubble.
func realScale() int {
	n, _ := strconv.Atoi(os.Getenv("VERIF_REALTIME"))
	return n
}
