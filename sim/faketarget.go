package sim

import (
	"bufio"
	"bytes"
	"context"
	"encoding/base64"
	"encoding/json"
	"fmt"
	"io"
	"net/http"
	"strconv"
	"strings"
	"sync"
	"time"
)

// ---------------------------------------------------------------------------
// Scripted fake target: a minimal HTTP/1.1 server on the in-memory network.
// Probe behaviour follows a timeline of phases; the behaviour for a proxied
// request is chosen by the client through an "X-Sim" request header, so that a
// request and what happens to it are one unit of the scenario.
// ---------------------------------------------------------------------------

type Phase struct {
	Until  time.Duration `json:"until,omitempty"` // phase holds while elapsed < Until; 0 = forever
	Kind   string        `json:"kind"`            // ok | status | refuse | hang | slow | reset | cutbody | stallbody
	Status int           `json:"status,omitempty"`
	Delay  time.Duration `json:"delay,omitempty"`
}

type TargetSpec struct {
	Addr       string   `json:"addr"`
	Phases     []Phase  `json:"phases,omitempty"` // empty = always ok
	AbsBase    bool     `json:"abs_base,omitempty"`
	DialFaults []string `json:"dial_faults,omitempty"` // consumed per proxy dial: "" | refuse | hang
	Link       Link     `json:"link,omitempty"`
	HealthPath string   `json:"health_path,omitempty"`
}

type FakeTarget struct {
	spec  TargetSpec
	w     *World
	mu    sync.Mutex
	first time.Duration
	seen  bool
	dials int
	// override, when set by a "probe_mode" operation of the scenario, replaces
	// the timeline: the scenario switches the target's health at a point of the
	// command history rather than at a point in time
	override *Phase
	// observation counters
	Probes   int
	Requests int
}

func (w *World) AddTarget(spec TargetSpec) *FakeTarget {
	if spec.HealthPath == "" {
		spec.HealthPath = "/up"
	}
	ft := &FakeTarget{spec: spec, w: w}
	w.Net.Register(spec.Addr, ft)
	w.Targets[spec.Addr] = ft
	return ft
}

func (ft *FakeTarget) phase() Phase {
	ft.mu.Lock()
	defer ft.mu.Unlock()
	now := ft.w.S.Now()
	if !ft.seen {
		ft.seen, ft.first = true, now
	}
	el := now
	if !ft.spec.AbsBase {
		el = now - ft.first
	}
	if ft.override != nil {
		return *ft.override
	}
	for _, p := range ft.spec.Phases {
		if p.Until == 0 || el < p.Until {
			return p
		}
	}
	return Phase{Kind: "ok"}
}

// SetProbeMode switches how the target answers probes from now on ("ok",
// "refuse", "reset", "hang", or "status=NNN"); "" returns to the timeline.
func (ft *FakeTarget) SetProbeMode(mode string) {
	ft.mu.Lock()
	defer ft.mu.Unlock()
	switch {
	case mode == "":
		ft.override = nil
	case strings.HasPrefix(mode, "status="):
		st, _ := strconv.Atoi(strings.TrimPrefix(mode, "status="))
		ft.override = &Phase{Kind: "status", Status: st}
	default:
		ft.override = &Phase{Kind: mode}
	}
}

func (ft *FakeTarget) Connect(ctx context.Context, kind string, client Addr) (func(*Conn), error) {
	addr := ft.spec.Addr
	if kind == "probe" {
		ph := ft.phase()
		switch ph.Kind {
		case "refuse":
			ft.w.H.Add(Event{Kind: "tgt.probe", Target: addr, Info: "refuse"})
			return nil, errRefused
		case "reset":
			ft.w.H.Add(Event{Kind: "tgt.probe", Target: addr, Info: "reset"})
			return func(s *Conn) { s.Reset() }, nil
		}
		return func(s *Conn) {
			ft.w.S.Go("conn:"+s.ID(), "bg", func() { ft.serveProbe(s, ph) })
		}, nil
	}
	ft.phase() // establishes the time base
	ft.mu.Lock()
	fault := ""
	if ft.dials < len(ft.spec.DialFaults) {
		fault = ft.spec.DialFaults[ft.dials]
	}
	ft.dials++
	ft.mu.Unlock()
	switch fault {
	case "refuse":
		ft.w.H.Add(Event{Kind: "fault", Target: addr, Info: "dial-refuse"})
		return nil, errRefused
	case "hang":
		ft.w.H.Add(Event{Kind: "fault", Target: addr, Info: "dial-hang"})
		return nil, ft.w.Net.HangDial(ctx)
	}
	return func(s *Conn) {
		s.SetLink(ft.spec.Link)
		ft.w.S.Go("conn:"+s.ID(), "bg", func() { ft.serveConn(s) })
	}, nil
}

func (ft *FakeTarget) serveProbe(c *Conn, ph Phase) {
	defer c.Close()
	addr := ft.spec.Addr
	br := bufio.NewReader(c)
	req, err := http.ReadRequest(br)
	if err != nil {
		return
	}
	io.Copy(io.Discard, req.Body)
	ft.mu.Lock()
	ft.Probes++
	ft.mu.Unlock()
	ft.w.H.Add(Event{Kind: "tgt.probe", Target: addr, Obj: c.ID(), Info: ph.Kind, Status: ph.Status})
	ft.w.mu.Lock()
	ft.w.bumpPointLocked("tgt.probe:" + addr) // operations can be aligned with "this target has received a probe"
	ft.w.mu.Unlock()
	ft.w.S.Yield("tgt.probe")
	status := 200
	switch ph.Kind {
	case "status":
		status = ph.Status
	case "hang":
		<-c.PeerGone()
		ft.w.H.Add(Event{Kind: "tgt.probeabort", Target: addr, Obj: c.ID()})
		return
	case "slow":
		t := ft.w.S.NewTimer(ph.Delay)
		select {
		case <-t.C:
		case <-c.PeerGone():
			t.Stop()
			ft.w.H.Add(Event{Kind: "tgt.probeabort", Target: addr, Obj: c.ID()})
			return
		}
		ft.w.S.Yield("tgt.proberespond")
		if ph.Status != 0 {
			status = ph.Status
		}
	case "ok":
		if ph.Status != 0 {
			status = ph.Status
		}
	}
	if ph.Kind == "cutbody" || ph.Kind == "stallbody" {
		// complete header block with the phase's status, a body that never
		// arrives in full: the connection closes (cutbody) or goes silent until
		// the prober gives up (stallbody) after half of the announced bytes
		status = ph.Status
		body := "probe " + addr + " ................................................"
		ft.w.H.Add(Event{Kind: "tgt.proberesp", Target: addr, Obj: c.ID(), Status: status, Info: ph.Kind})
		ft.w.H.Add(Event{Kind: "fault", Target: addr, Obj: c.ID(), Info: "probe-" + ph.Kind})
		c.Write([]byte(fmt.Sprintf("HTTP/1.1 %d %s\r\nContent-Length: %d\r\nConnection: close\r\n\r\n%s", status, http.StatusText(status), len(body), body[:len(body)/2])))
		if ph.Kind == "stallbody" {
			<-c.PeerGone()
		}
		return
	}
	body := "probe " + addr
	resp := fmt.Sprintf("HTTP/1.1 %d %s\r\nContent-Length: %d\r\nConnection: close\r\n\r\n%s", status, http.StatusText(status), len(body), body)
	if c.PeerClosed() {
		ft.w.H.Add(Event{Kind: "tgt.probeabort", Target: addr, Obj: c.ID()})
		return
	}
	// recorded before the bytes leave, so reactions to them come later in the log
	ft.w.H.Add(Event{Kind: "tgt.proberesp", Target: addr, Obj: c.ID(), Status: status})
	c.Write([]byte(resp))
}

// SimDirective is the parsed X-Sim header.
type SimDirective struct {
	Delay   time.Duration
	Status  int
	Size    int
	Mode    string // "" | hang | upgrade | echo | stream | sse
	Fault   string // close_before | garbage | close_mid_headers | stall_headers | close_mid_body | close_in_chunk | stall_mid_body | reset_mid_body
	FaultD  time.Duration
	Close   bool
	Chunks  int
	Gap     time.Duration
	PreGap  time.Duration // chunked modes: silence between the header block and the first chunk
	Headers [][2]string
}

func parseSim(v string) SimDirective {
	d := SimDirective{Status: 200}
	for _, kv := range strings.Split(v, ";") {
		kv = strings.TrimSpace(kv)
		if kv == "" {
			continue
		}
		k, val, _ := strings.Cut(kv, "=")
		switch k {
		case "delay":
			d.Delay, _ = time.ParseDuration(val)
		case "status":
			d.Status, _ = strconv.Atoi(val)
		case "size":
			d.Size, _ = strconv.Atoi(val)
		case "mode":
			d.Mode = val
		case "fault":
			f, dur, _ := strings.Cut(val, ":")
			d.Fault = f
			d.FaultD, _ = time.ParseDuration(dur)
		case "close":
			d.Close = true
		case "chunks":
			d.Chunks, _ = strconv.Atoi(val)
		case "gap":
			d.Gap, _ = time.ParseDuration(val)
		case "pregap":
			d.PreGap, _ = time.ParseDuration(val)
		case "hdr":
			n, v, _ := strings.Cut(val, ":")
			d.Headers = append(d.Headers, [2]string{n, v})
		}
	}
	return d
}

type teeReader struct {
	r   io.Reader
	buf bytes.Buffer
}

func (t *teeReader) Read(p []byte) (int, error) {
	n, err := t.r.Read(p)
	t.buf.Write(p[:n])
	return n, err
}

// EchoRecord is what an echo target reports back about the request it saw.
type EchoRecord struct {
	RawHead string `json:"raw_head"` // request line + header block exactly as received
	BodyB64 string `json:"body_b64"` // de-chunked body
	Target  string `json:"target"`
}

func (ft *FakeTarget) serveConn(c *Conn) {
	defer c.Close()
	addr := ft.spec.Addr
	H := ft.w.H
	tee := &teeReader{r: c}
	br := bufio.NewReader(tee)
	for {
		tee.buf.Reset()
		if br.Buffered() > 0 { // bytes already pulled in belong to the next request
			b, _ := br.Peek(br.Buffered())
			tee.buf.Write(b)
		}
		req, err := http.ReadRequest(br)
		if err != nil {
			H.Add(Event{Kind: "tgt.connclosed", Target: addr, Obj: c.ID()})
			return
		}
		raw := tee.buf.Bytes()
		headEnd := bytes.Index(raw, []byte("\r\n\r\n"))
		rawHead := ""
		if headEnd >= 0 {
			rawHead = string(raw[:headEnd+4])
		}
		rid := req.Header.Get("X-Request-Id")
		d := parseSim(req.Header.Get("X-Sim"))
		H.Add(Event{Kind: "tgt.recv", Target: addr, Obj: c.ID(), Req: rid, Info: req.Method + " " + req.RequestURI})
		body, berr := io.ReadAll(req.Body)
		if berr != nil {
			H.Add(Event{Kind: "tgt.abort", Target: addr, Obj: c.ID(), Req: rid, Info: "reading body: " + berr.Error()})
			return
		}
		ft.mu.Lock()
		ft.Requests++
		ft.mu.Unlock()
		H.Add(Event{Kind: "tgt.body", Target: addr, Obj: c.ID(), Req: rid, N: len(body)})
		ft.w.noteTargetRequest(addr, rid, rawHead, body)
		ft.w.S.Yield("tgt.handle")

		if d.Mode == "hang" {
			<-c.PeerGone()
			H.Add(Event{Kind: "tgt.abort", Target: addr, Obj: c.ID(), Req: rid, Info: "hang"})
			return
		}
		if d.Fault == "close_before" {
			H.Add(Event{Kind: "fault", Target: addr, Req: rid, Info: d.Fault})
			return
		}
		if d.Delay > 0 {
			t := ft.w.S.NewTimer(d.Delay)
			select {
			case <-t.C:
			case <-c.PeerGone():
				t.Stop()
				H.Add(Event{Kind: "tgt.abort", Target: addr, Obj: c.ID(), Req: rid, Info: "during delay"})
				return
			}
			ft.w.S.Yield("tgt.respond")
		}
		if d.Mode == "upgrade" || (d.Mode == "" && strings.EqualFold(req.Header.Get("Connection"), "upgrade") && req.Header.Get("Upgrade") != "") {
			up := req.Header.Get("Upgrade")
			if up == "" {
				up = "websocket"
			}
			H.Add(Event{Kind: "tgt.resp", Target: addr, Obj: c.ID(), Req: rid, Status: 101})
			c.Write([]byte("HTTP/1.1 101 Switching Protocols\r\nConnection: Upgrade\r\nUpgrade: " + up + "\r\nX-Served-By: " + addr + "\r\n\r\n"))
			// echo until the peer goes away
			buf := make([]byte, 256)
			for {
				n, err := br.Read(buf)
				if n > 0 {
					c.Write(buf[:n])
				}
				if err != nil {
					break
				}
			}
			H.Add(Event{Kind: "tgt.upclosed", Target: addr, Obj: c.ID(), Req: rid})
			return
		}

		var payload []byte
		ctype := "text/plain"
		switch d.Mode {
		case "echo":
			rec := EchoRecord{RawHead: rawHead, BodyB64: base64.StdEncoding.EncodeToString(body), Target: addr}
			payload, _ = json.Marshal(rec)
			ctype = "application/json"
		case "filler":
			payload = []byte(body14(d.Size))
		default:
			payload = []byte(addr + "|" + rid + "|")
			for len(payload) < d.Size {
				payload = append(payload, byte('a'+len(payload)%26))
			}
		}
		if d.Status == 204 || d.Status == 304 || req.Method == "HEAD" {
			payload = nil // no body allowed: anything written would corrupt the connection
		}
		var head bytes.Buffer
		fmt.Fprintf(&head, "HTTP/1.1 %d %s\r\n", d.Status, http.StatusText(d.Status))
		fmt.Fprintf(&head, "X-Served-By: %s\r\n", addr)
		fmt.Fprintf(&head, "X-Seen-Uri: %s\r\n", req.RequestURI)
		hasCT := false
		for _, h := range d.Headers {
			fmt.Fprintf(&head, "%s: %s\r\n", h[0], h[1])
			if strings.EqualFold(h[0], "Content-Type") {
				hasCT = true
			}
		}
		if d.Mode == "sse" {
			ctype = "text/event-stream"
		}
		if !hasCT {
			fmt.Fprintf(&head, "Content-Type: %s\r\n", ctype)
		}
		if d.Close {
			head.WriteString("Connection: close\r\n")
		}
		chunked := d.Mode == "stream" || d.Mode == "sse" || d.Fault == "close_in_chunk"
		if chunked {
			head.WriteString("Transfer-Encoding: chunked\r\n\r\n")
		} else if d.Status == 204 || d.Status == 304 {
			head.WriteString("\r\n")
		} else {
			fmt.Fprintf(&head, "Content-Length: %d\r\n\r\n", len(payload))
		}

		switch d.Fault {
		case "garbage":
			H.Add(Event{Kind: "fault", Target: addr, Req: rid, Info: d.Fault})
			c.Write([]byte("\x00\x01garbage not http\r\n\r\n"))
			return
		case "close_mid_headers", "close_after_status_line", "close_after_header_line":
			H.Add(Event{Kind: "fault", Target: addr, Req: rid, Info: d.Fault})
			hb := head.Bytes()
			cut := len(hb) / 2 // in the middle of a header line
			if d.Fault == "close_after_status_line" {
				cut = bytes.Index(hb, []byte("\r\n")) + 2
			} else if d.Fault == "close_after_header_line" { // complete lines, but the block is never terminated
				cut = bytes.LastIndex(hb[:len(hb)-4], []byte("\r\n")) + 2
			}
			c.Write(hb[:cut])
			return
		case "stall_headers":
			H.Add(Event{Kind: "fault", Target: addr, Req: rid, Info: d.Fault + ":" + d.FaultD.String()})
			t := ft.w.S.NewTimer(d.FaultD)
			select {
			case <-t.C:
			case <-c.PeerGone():
				t.Stop()
				H.Add(Event{Kind: "tgt.abort", Target: addr, Obj: c.ID(), Req: rid, Info: "during stall"})
				return
			}
		}
		if c.PeerClosed() {
			H.Add(Event{Kind: "tgt.abort", Target: addr, Obj: c.ID(), Req: rid, Info: "writing head"})
			return
		}
		H.Add(Event{Kind: "tgt.head", Target: addr, Obj: c.ID(), Req: rid, Status: d.Status})
		simple := !chunked && d.Fault == ""
		if simple { // the whole response in one write: record completion first
			H.Add(Event{Kind: "tgt.resp", Target: addr, Obj: c.ID(), Req: rid, Status: d.Status, N: len(payload)})
			c.Write(append(head.Bytes(), payload...))
			if d.Close {
				return
			}
			continue
		}
		c.Write(head.Bytes())
		if chunked && d.PreGap > 0 {
			H.Add(Event{Kind: "fault", Target: addr, Req: rid, Info: "stall-after-headers:" + d.PreGap.String()})
			t := ft.w.S.NewTimer(d.PreGap)
			select {
			case <-t.C:
			case <-c.PeerGone():
				t.Stop()
				H.Add(Event{Kind: "tgt.abort", Target: addr, Obj: c.ID(), Req: rid, Info: "stalled after headers"})
				return
			}
		}
		if chunked {
			n := d.Chunks
			if n <= 0 {
				n = 2
			}
			per := (len(payload) + n - 1) / n
			if per == 0 {
				per = 1
			}
			aborted := false
			for i := 0; i*per < len(payload); i++ {
				end := (i + 1) * per
				if end > len(payload) {
					end = len(payload)
				}
				piece := payload[i*per : end]
				if d.Fault == "close_in_chunk" && i == 1 {
					H.Add(Event{Kind: "fault", Target: addr, Req: rid, Info: d.Fault})
					fmt.Fprintf(c, "%x\r\n%s", len(piece), piece[:len(piece)/2])
					return
				}
				if _, err := fmt.Fprintf(c, "%x\r\n%s\r\n", len(piece), piece); err != nil {
					aborted = true
					break
				}
				H.Add(Event{Kind: "tgt.chunk", Target: addr, Obj: c.ID(), Req: rid, N: len(piece)})
				if d.Gap > 0 {
					t := ft.w.S.NewTimer(d.Gap)
					select {
					case <-t.C:
					case <-c.PeerGone():
						t.Stop()
						aborted = true
					}
					if aborted {
						break
					}
				}
			}
			if aborted {
				H.Add(Event{Kind: "tgt.abort", Target: addr, Obj: c.ID(), Req: rid, Info: "streaming"})
				return
			}
			H.Add(Event{Kind: "tgt.resp", Target: addr, Obj: c.ID(), Req: rid, Status: d.Status, N: len(payload)})
			c.Write([]byte("0\r\n\r\n"))
		} else {
			switch d.Fault {
			case "close_mid_body", "reset_mid_body":
				H.Add(Event{Kind: "fault", Target: addr, Req: rid, Info: d.Fault})
				c.Write(payload[:len(payload)/2])
				if d.Fault == "reset_mid_body" {
					c.Reset()
				}
				return
			case "stall_mid_body":
				H.Add(Event{Kind: "fault", Target: addr, Req: rid, Info: d.Fault + ":" + d.FaultD.String()})
				c.Write(payload[:len(payload)/2])
				t := ft.w.S.NewTimer(d.FaultD)
				select {
				case <-t.C:
				case <-c.PeerGone():
					t.Stop()
					H.Add(Event{Kind: "tgt.abort", Target: addr, Obj: c.ID(), Req: rid, Info: "during body stall"})
					return
				}
				payload = payload[len(payload)/2:]
			}
			if c.PeerClosed() {
				H.Add(Event{Kind: "tgt.abort", Target: addr, Obj: c.ID(), Req: rid, Info: "writing body"})
				return
			}
			H.Add(Event{Kind: "tgt.resp", Target: addr, Obj: c.ID(), Req: rid, Status: d.Status, N: len(payload)})
			c.Write(payload)
		}
		if d.Close {
			return
		}
	}
}
