#!/usr/bin/env python3
"""Regenerates MANIFEST.json from props.json (checks that exist) and properties.jsonl."""
import json, subprocess
props = [json.loads(l) for l in open('/verif/properties.jsonl')]
meta = json.load(open('/verif/props.json'))
commits = subprocess.run(['git', '-C', '/repo', 'log', '--format=%h %s'], capture_output=True, text=True).stdout.splitlines()
hook_commits = [c.split()[0] for c in commits if c.split(' ', 1)[1].startswith('verif:')]
TECH = "deterministic simulation with fault injection (seeded schedule and fault search over the real code on a virtual clock, history oracle, minimised replay)"
NOTE = "built with go1.26.8 (testing/synctest) instead of the shipping go1.24.2; interleavings explored at yield-hook granularity; network, targets, clock and scheduler are simulated (see evidence: components_real / components_stub); sampling, not proof"
m = {
    "version": 1,
    "setup_cmd": "./check build",
    "hooks": {"guard": "verif (Go build tag)",
              "enable": "go test -c -tags verif in /verif/sim with the go1.24.2 toolchain and GOEXPERIMENT=synctest (VERIF_GO=1.26: go1.26.8); a second build of a scratch copy rewritten by /verif/sim/autoyield adds -tags autoyield (module github.com/basecamp/kamal-proxy/verif with replace github.com/basecamp/kamal-proxy => /repo)",
              "baseline_off_cmd": "cd /repo && GOFLAGS=-mod=mod GOPROXY=off go test -vet=off -count=1 ./...",
              "source_commits": list(reversed(hook_commits)), "add_only": True},
    "engines": [{"name": "sim", "path": "/verif/sim", "serves_properties": sorted(meta),
                 "kind_free_text": "deterministic simulation: the real internal/server code inside a testing/synctest bubble (virtual clock), in-memory network with scripted fake targets, cooperative seeded scheduler over build-tag guarded yield hooks, fault injection (probe outcomes, target faults, client aborts, CPU stalls, directed holds, crash points), history oracles, delta-debugging minimiser, replay files"}],
    "checks": [], "not_applicable": [],
    "notes": "See DESIGN.md. ./check run <ID> --tier quick|thorough [--seed N]; ./check replay <file>; ./check selftest (determinism across processes and GOMAXPROCS).",
}
for p in props:
    pid = p['id']
    if pid in meta:
        mm = meta[pid]
        m["checks"].append({
            "property_id": pid, "quick_cmd": f"./check run {pid} --tier quick", "thorough_cmd": f"./check run {pid} --tier thorough",
            "evidence_file": f"/verif/evidence/{pid}.json", "replay_cmd_template": "./check replay {path}", "engine": "sim",
            "level_claimed": {"category": mm.get("level", "exploration"), "text": mm["claim"], "design_ref": "DESIGN.md §2 " + pid},
            "level_note": mm.get("note", NOTE), "technique": mm.get("technique", TECH)})
    else:
        reason = {"C20": "pure function of argv, environment and one RPC reply, evaluated once per process: no schedule, clock, fault or interleaving for a simulator to control; the simulation deliberately bypasses internal/cmd (DESIGN.md §2 C20)"}.get(pid, "check not built yet (work in progress)")
        m["not_applicable"].append({"property_id": pid, "reason": reason})
json.dump(m, open('/verif/MANIFEST.json', 'w'), indent=1)
print("checks:", [c["property_id"] for c in m["checks"]])
