#!/bin/bash
# race mode pass: real time (no bubble), durations /SCALE, hooks off, -race. Prints the first race or CLEAN.
cd /verif/sim && G124=/root/go/pkg/mod/golang.org/toolchain@v0.0.1-go1.24.2.linux-amd64 && GOFLAGS=-mod=mod GOPROXY=off GOSUMDB=off GOTOOLCHAIN=local GOEXPERIMENT=synctest $G124/bin/go test -race -c -tags verif -o /verif/.build/sim.race.124.test . || exit 2
cd /verif
for s in 1 2 3 4 5 6 7 8; do
VERIF_SEED=$s VERIF_FREE=1 VERIF_UNCONTROLLED=1 VERIF_REALTIME=${3:-10} GORACE="halt_on_error=1" VERIF_PROP=${1:-C18} VERIF_COUNT=${2:-40} VERIF_QUIET=1 timeout 900 .build/sim.race.124.test -test.run TestAdhoc > /tmp/race.$s.txt 2>&1 &
done; wait
for s in 1 2 3 4 5 6 7 8; do if grep -q "DATA RACE" /tmp/race.$s.txt; then grep -m1 -A60 "DATA RACE" /tmp/race.$s.txt | grep "server\.\|^Read\|^Previous\|^Write" | head -12; exit 1; fi; done
tail -3 /tmp/race.1.txt; echo CLEAN
